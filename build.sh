#!/bin/bash
# Builds the conformance harness from /repo's current working tree (offline).
set -e
cd /verif/harness
cp /repo/go.work.sum . 2>/dev/null || true
GO=/root/go/pkg/mod/golang.org/toolchain@v0.0.1-go1.24.0.linux-amd64/bin/go
[ -x "$GO" ] || GO=go
mkdir -p /verif/.bin
TAGS="${VERIF_TAGS-verif}"
env -u GOFLAGS GOPROXY=off GOSUMDB=off GONOSUMDB='*' GONOSUMCHECK=1 GOFLAGS= GOTOOLCHAIN=local GOWORK=/verif/harness/go.work \
  "$GO" build -tags "$TAGS" -o /verif/.bin/orbsim ./cmd/orbsim
