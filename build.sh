#!/bin/bash
# Builds the conformance harness from /repo's current working tree (offline).
set -e
HERE="$(cd "$(dirname "$0")" && pwd)"
cd "$HERE/harness"
cp /repo/go.work.sum . 2>/dev/null || true
GO=/root/go/pkg/mod/golang.org/toolchain@v0.0.1-go1.24.0.linux-amd64/bin/go
[ -x "$GO" ] || GO=go
mkdir -p "$HERE/.bin"
TAGS="${VERIF_TAGS-verif}"
sed "s#^\t\.\$#\t$HERE/harness#" go.work > "$HERE/.bin/go.work"
cp go.work.sum "$HERE/.bin/go.work.sum" 2>/dev/null || true
env -u GOFLAGS GOPROXY=off GOSUMDB=off GOFLAGS= GOTOOLCHAIN=local GOWORK="$HERE/.bin/go.work" \
  "$GO" build -tags "$TAGS" -o "$HERE/.bin/orbsim" ./cmd/orbsim
