#!/usr/bin/env python3
"""Sensitivity test: apply a patch to /repo, run the named checks, restore /repo.

  seedtest.py <patch.diff> <ID>[,<ID>...] [quick|thorough]

Prints one line per check: DETECTED (exit 1 + VIOLATION line), MISSED (exit 0), or BROKEN (exit 2).
/repo is always restored (git checkout -- . ; untracked files created by the patch removed)."""
import subprocess, sys, os, re

def sh(cmd, **kw):
    return subprocess.run(cmd, shell=True, stdout=subprocess.PIPE, stderr=subprocess.STDOUT, **kw)

def main():
    patch, ids = sys.argv[1], sys.argv[2].split(",")
    tier = sys.argv[3] if len(sys.argv) > 3 else "quick"
    st = sh("git -C /repo status --porcelain").stdout.decode().strip()
    if st:
        print("refusing: /repo is not clean:\n" + st); return 2
    r = sh("git -C /repo apply --whitespace=nowarn %s" % patch)
    if r.returncode != 0:
        print("patch does not apply: " + r.stdout.decode()); return 2
    results = {}
    try:
        b = sh("cd /repo && go build ./...")
        if b.returncode != 0:
            print("patched tree does not build:\n" + b.stdout.decode()[-2000:]); return 2
        for i in ids:
            r = sh("cd /verif && ./check %s %s" % (i, tier))
            out = r.stdout.decode()
            v = [l for l in out.splitlines() if l.startswith("VIOLATION")]
            verdict = {0: "MISSED", 1: "DETECTED", 2: "BROKEN"}.get(r.returncode, "BROKEN")
            results[i] = verdict
            print("%s %s  (%d VIOLATION lines)" % (i, verdict, len(v)))
            for l in out.splitlines():
                if l.startswith("  at ") or l.startswith("MACHINERY") or l.startswith("NOTE"):
                    print("      " + l[:260])
    finally:
        sh("git -C /repo checkout -- . && git -C /repo clean -fdq")
    return 0

if __name__ == "__main__":
    sys.exit(main())
