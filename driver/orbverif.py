#!/usr/bin/env python3
"""Driver of the orbiter model-based verification machinery (DESIGN.md sections 3, 6).

  check <ID> quick|thorough     decide property <ID> on /repo's current working tree
  check replay <path>           re-execute a recorded violation
  check selfcheck               binding / non-vacuity demonstrations

Pipeline of one check: build harness from /repo -> TLC model checking of the property's family
-> TLC generation of input histories/grids -> replay in the real code (orbsim) -> TLC trace
validation (conformance + property predicates on every observed step) -> attribution against
KNOWN_FINDINGS.json -> reproduction of every candidate -> evidence.

Exit codes: 0 held on everything explored; 1 new violation (after reproduction); 2 machinery
failure.  Only Obs_Cxx (the property predicate on an observed step of the real code) can produce
a VIOLATION; conformance divergences are NOTEs.
"""
import json, os, re, shutil, subprocess, sys, time, hashlib, glob

ROOT = os.path.dirname(os.path.dirname(os.path.abspath(__file__)))
SPEC = os.path.join(ROOT, "spec")
BIN = os.path.join(ROOT, ".bin", "orbsim")
WORK = os.path.join(ROOT, ".work")
NCPU = os.cpu_count() or 4


class Machinery(Exception):
    pass


def log(*a):
    print(*a, flush=True)


def run(cmd, timeout, env=None, cwd=None, what=""):
    e = dict(os.environ)
    if env:
        e.update(env)
    t0 = time.time()
    try:
        p = subprocess.run(cmd, cwd=cwd, env=e, stdout=subprocess.PIPE, stderr=subprocess.STDOUT, timeout=timeout)
    except subprocess.TimeoutExpired:
        raise Machinery("timeout after %ds: %s" % (timeout, what or cmd[0]))
    return p.returncode, p.stdout.decode("utf-8", "replace"), time.time() - t0


def build():
    rc, out, dt = run([os.path.join(ROOT, "build.sh")], 1800, what="build harness")
    if rc != 0:
        raise Machinery("harness build failed:\n" + out[-4000:])
    log("built harness from /repo working tree in %.0fs" % dt)


# ----------------------------------------------------------------------------- TLC helpers

def prep_spec(wd):
    d = os.path.join(wd, "spec")
    if os.path.exists(d):
        shutil.rmtree(d)
    shutil.copytree(SPEC, d)
    return d


def write_cfg(path, base_cfg, overrides):
    """Copy a .cfg replacing 'CONSTANT name = value' lines named in overrides."""
    # TLC's configuration language has no ".." : integer ranges are written out as sets
    def lit(v):
        m = re.fullmatch(r"\s*(\d+)\.\.(\d+)\s*", str(v))
        return "{%s}" % ", ".join(str(i) for i in range(int(m.group(1)), int(m.group(2)) + 1)) if m else v
    overrides = {k: lit(v) for k, v in overrides.items()}
    lines = open(base_cfg).read().splitlines()
    out, seen = [], set()
    for ln in lines:
        m = re.match(r"\s*CONSTANT\s+(\w+)\s*=\s*(.*)$", ln)
        if m and m.group(1) in overrides:
            out.append("CONSTANT %s = %s" % (m.group(1), overrides[m.group(1)]))
            seen.add(m.group(1))
        else:
            out.append(ln)
    for k, v in overrides.items():
        if k not in seen:
            out.append("CONSTANT %s = %s" % (k, v))
    open(path, "w").write("\n".join(out) + "\n")


def tlc(specdir, module, cfg, args, timeout, env=None, workers=None):
    meta = os.path.join(specdir, "meta_%s_%s" % (module, hashlib.sha1((cfg + str(time.time())).encode()).hexdigest()[:10]))
    cmd = ["tlc", "-workers", str(workers or NCPU), "-metadir", meta, "-noGenerateSpecTE", "-config", cfg] + args + [module + ".tla"]
    rc, out, dt = run(cmd, timeout, env=env, cwd=specdir, what="tlc " + module)
    shutil.rmtree(meta, ignore_errors=True)
    return rc, out, dt


def model_check(specdir, module, cfgname, overrides, timeout, workers=None, tag=""):
    cfg = os.path.join(specdir, "_mc_%s%s.cfg" % (module, tag))
    write_cfg(cfg, os.path.join(specdir, cfgname), overrides)
    rc, out, dt = tlc(specdir, module, cfg, [], timeout, workers=workers)
    m = re.search(r"(\d+) states generated, (\d+) distinct states found", out)
    if rc != 0 or "Model checking completed. No error has been found." not in out or not m:
        # a violation here means the SPECIFICATION violates the property: machinery/design defect
        raise Machinery("model checking of %s did not complete cleanly (rc=%d):\n%s" % (module, rc, out[-3000:]))
    return dict(module=module, constants=overrides, transitions=int(m.group(1)), states=int(m.group(2)), wall_s=round(dt, 1))


def unescape_tlc(s):
    return s.replace('\\"', '"').replace("\\\\", "\\")


def generate(specdir, module, cfgname, overrides, mode, num, depth, seed, timeout, workers=None, tag=""):
    """mode 'bfs': all histories of length depth; mode 'sim': num random histories; mode 'tour': one
    history per state / per transition of the complete state graph under the module's VIEW."""
    cfg = os.path.join(specdir, "_gen_%s_%s%s.cfg" % (module, mode, tag))
    ov = dict(overrides)
    ov["GenDepth"] = str(depth)
    write_cfg(cfg, os.path.join(specdir, cfgname), ov)
    txt = open(cfg).read()
    txt = re.sub(r"SPECIFICATION \w+", "SPECIFICATION " + ("SimSpec" if mode == "sim" else "TourSpec" if mode == "tour" else "GenSpec"), txt)
    if mode == "tour":
        # transition / state tour of the complete graph: histories are printed from inside the action
        txt = re.sub(r"INVARIANT Emit\n", "VIEW TourView\n", txt)
    open(cfg, "w").write(txt)
    if mode == "sim":
        args = ["-simulate", "num=%d" % num, "-depth", str(depth + 2), "-seed", str(seed)]
        rc, out, dt = tlc(specdir, module, cfg, args, timeout, workers=1)
    else:
        rc, out, dt = tlc(specdir, module, cfg, [], timeout, workers=workers)
    behs = []
    for ln in out.splitlines():
        m = re.match(r'^<<"BEHAVIOUR", "(.*)">>$', ln.strip())
        if m:
            behs.append(json.loads(unescape_tlc(m.group(1))))
    if rc != 0 or not behs:
        raise Machinery("generation with %s/%s failed (rc=%d):\n%s" % (module, mode, rc, out[-3000:]))
    return behs, dt


def grid(specdir, module, cfgname, overrides, timeout):
    """A grid is the set of values printed by an ASSUME of a constant module: <<"GRID", json>>."""
    cfg = os.path.join(specdir, "_grid_%s.cfg" % module)
    write_cfg(cfg, os.path.join(specdir, cfgname), overrides)
    rc, out, dt = tlc(specdir, module, cfg, [], timeout, workers=1)
    pts = []
    for ln in out.splitlines():
        m = re.match(r'^<<"GRID", "(.*)">>$', ln.strip())
        if m:
            pts.extend(json.loads(unescape_tlc(m.group(1))))
    if rc != 0 or not pts:
        raise Machinery("grid generation with %s failed (rc=%d):\n%s" % (module, rc, out[-3000:]))
    return pts, dt


# ----------------------------------------------------------------------------- harness

def replay(behaviours, wd, tag, mode="app", controls="", extra=None, timeout=3600, env=None):
    inp = os.path.join(wd, tag + ".behaviours.ndjson")
    outp = os.path.join(wd, tag + ".trace.ndjson")
    with open(inp, "w") as f:
        for b in behaviours:
            f.write(json.dumps(b) + "\n")
    cmd = [BIN, "run", "-in", inp, "-out", outp, "-mode", mode, "-controls", controls] + (extra or [])
    rc, out, dt = run(cmd, timeout, what="orbsim run", env=env)
    if rc != 0:
        raise Machinery("orbsim failed (rc=%d): %s" % (rc, out[-3000:]))
    return outp, dt


def validate(specdir, trace, swap, timeout=3600, parallel=None):
    """TLC trace validation; returns one record per trace line (from the @S prints)."""
    lines = open(trace).read().splitlines()
    n = len(lines)
    if n == 0:
        raise Machinery("empty trace " + trace)
    # split on behaviour boundaries into chunks validated by parallel TLC processes
    k = parallel or max(1, min(NCPU, n // 1500))
    bounds = [0]
    if k > 1:
        target = n // k
        i = target
        while i < n and len(bounds) < k:
            while i < n and json.loads(lines[i])["i"] != 1:
                i += 1
            if i < n:
                bounds.append(i)
            i += target
    bounds.append(n)
    procs = []
    for c in range(len(bounds) - 1):
        part = trace + ".part%d" % c
        with open(part, "w") as f:
            f.write("\n".join(lines[bounds[c]:bounds[c + 1]]) + "\n")
        cfg = os.path.join(specdir, "_trace_%d.cfg" % c)
        write_cfg(cfg, os.path.join(specdir, "OrbiterTrace.cfg"), {"SwapRegistered": "TRUE" if swap else "FALSE"})
        meta = os.path.join(specdir, "meta_trace_%d_%d" % (c, os.getpid()))
        env = dict(os.environ, ORB_TRACE=part, JAVA_TOOL_OPTIONS="-Xmx3g -Xss64m")
        p = subprocess.Popen(["tlc", "-workers", "1", "-metadir", meta, "-noGenerateSpecTE", "-config", cfg, "OrbiterTrace.tla"],
                             cwd=specdir, env=env, stdout=subprocess.PIPE, stderr=subprocess.STDOUT)
        procs.append((p, part, meta, bounds[c], bounds[c + 1] - bounds[c]))
    recs = []
    t0 = time.time()
    for p, part, meta, off, cnt in procs:
        try:
            out, _ = p.communicate(timeout=max(1, timeout - (time.time() - t0)))
        except subprocess.TimeoutExpired:
            for q, *_ in procs:
                q.kill()
            raise Machinery("trace validation timed out")
        out = out.decode("utf-8", "replace")
        shutil.rmtree(meta, ignore_errors=True)
        got = []
        for ln in out.splitlines():
            j = ln.find("@S ")
            if j < 0:
                continue
            s = ln[j + 3:].rstrip()
            if s.endswith('"'):
                s = s[:-1]
            r = json.loads(unescape_tlc(s))
            r["k"] += off
            got.append(r)
        if p.returncode != 0 or "No error has been found" not in out or len(got) != cnt:
            errs = [l for l in out.splitlines() if l.startswith("Error") or "which is not" in l or "Attempted" in l or "non-" in l]
            raise Machinery("trace validation failed (rc=%s, %d/%d lines): %s\n%s" % (p.returncode, len(got), cnt, " | ".join(errs[:8]), out[-600:]))
        os.remove(part)
        recs.extend(got)
    recs.sort(key=lambda r: r["k"])
    return recs, [json.loads(x) for x in lines], time.time() - t0


# ----------------------------------------------------------------------------- known findings

def load_known():
    p = os.path.join(ROOT, "KNOWN_FINDINGS.json")
    if not os.path.exists(p):
        return []
    return json.load(open(p)).get("findings", [])


def getpath(obj, path):
    for part in path.split("."):
        if isinstance(obj, list):
            try:
                obj = obj[int(part)]
            except (ValueError, IndexError):
                return None
        elif isinstance(obj, dict):
            obj = obj.get(part)
        else:
            return None
    return obj


def matches(entry, prop, ev):
    if entry.get("status") != "finding" or entry.get("property") != prop:
        return False
    for path, want in entry.get("match", {}).items():
        got = getpath(ev, path)
        if isinstance(want, list):
            if got not in want:
                return False
        elif got != want:
            return False
    return True


def in_summary(i):
    """Short abstract description of an input, for reports."""
    t = i.get("t")
    if t == "recv":
        acts = ["%s/%s%s" % (a["id"], a["at"], "".join("[%s %s%s->%s]" % (f["k"], f["v"], "" if f["vc"] == "OK" else ":" + f["vc"], f["to"]) for f in a["fees"])) for a in i.get("acts", [])]
        fw = {k: v for k, v in i.get("fw", {}).items() if v not in ("NONE", 0, "")}
        mk = i.get("mk")
        if mk == "MUT":
            mk = "MUT[%s @ %s]" % (i.get("op"), i.get("aid"))
        elif mk == "RANDOM":
            mk = "RANDOM[%s #%s]" % (i.get("op"), i.get("v"))
        return "recv chan=%s rcv=%s dn=%s base=%r amt=%s%s mk=%s fw=%s acts=%s%s" % (
            i.get("chan"), i.get("rcv"), i.get("dn"), i.get("base"), "".join(map(str, i.get("amtd"))) if i.get("amtc") == "DIGITS" else i.get("amt"), "" if i.get("amtc") == "OK" else ":" + str(i.get("amtc")),
            mk, fw, acts, (" faults=%s" % i["faults"]) if i.get("faults") else "")
    if t == "admin":
        return "admin %s signer=%s pid=%s cps=%s aid=%s v=%s" % (i.get("rpc"), i.get("signer"), i.get("pid"), i.get("cps"), i.get("aid"), i.get("v"))
    if t == "deposit":
        return "deposit %s %s" % (i.get("amt"), i.get("denom"))
    if t == "env":
        return "env %s %s" % (i.get("op"), i.get("who"))
    if t == "ident":
        return "ident pid=%s over %d counterparty spellings" % (i.get("pid"), len(i.get("ids", [])))
    if t == "gendoc":
        return "gendoc %s" % json.dumps(i.get("g"))[:400]
    if t == "query":
        return "query %s" % json.dumps(i.get("q"))
    if t == "reimport":
        return "reimport"
    return json.dumps({k: v for k, v in i.items() if k in ("t", "q")})[:300]
