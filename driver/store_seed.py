#!/usr/bin/env python3
"""store_seed.py <prop> <k> <detected_by,comma> <missed_by,comma|-> <change> -- <needs> [-- <strengthening>]
Copies /tmp/wt2-out/<prop>/{patch<k>.diff,demo<k>_test.go,notes<k>.md} to /verif/seeded/<prop>-r2-agent<k>/."""
import sys, os, json, shutil
prop, k, det, miss = sys.argv[1:5]
RND = os.environ.get("SEED_ROUND", "2")
rest = " ".join(sys.argv[5:]).split(" -- ")
change, needs = rest[0], rest[1]
strength = rest[2] if len(rest) > 2 else ""
src = "/tmp/wt%s-out/%s" % (RND, prop)
dst = "/verif/seeded/%s-r%s-agent%s" % (prop, RND, k)
os.makedirs(dst, exist_ok=True)
shutil.copy("%s/patch%s.diff" % (src, k), dst + "/patch.diff")
shutil.copy("%s/demo%s_test.go" % (src, k), dst + "/demo_test.go")
if os.path.exists("%s/notes%s.md" % (src, k)):
    shutil.copy("%s/notes%s.md" % (src, k), dst + "/notes.md")
meta = {
    "id": "%s-r%s-agent%s" % (prop, RND, k),
    "origin": "round %s: independent sub-agent given only the property text, a scratch worktree and the hint to avoid the kinds of change earlier rounds produced" % RND,
    "breaks": [prop],
    "change": change,
    "needs_to_manifest": needs,
    "confirmed": "driver/confirm_seed.sh in a scratch worktree: compiles, go test ./... green, demonstration passes on the pristine tree and fails with the change",
    "ran": "python3 driver/seedtest.py <patch> <ids> (quick tier, seed 1) at the time of seeding",
    "detected_by": [x for x in det.split(",") if x and x != "-"],
    "missed_by": [x for x in miss.split(",") if x and x != "-"],
}
if strength:
    meta["strengthening"] = strength
json.dump(meta, open(dst + "/meta.json", "w"), indent=1)
print("stored", dst)
