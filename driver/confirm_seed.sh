#!/bin/bash
# confirm_seed.sh <worktree> <patch> <demo_test.go>
# Confirms, in a scratch worktree, that a seeded change compiles, keeps the existing tests green,
# and that its demonstration fails with the change and passes without it.
WT=$1; PATCH=$2; DEMO=$3
cd "$WT" || exit 2
git checkout -q -- . && git clean -fdq
PLACE=$(grep -m1 -o 'place in: *[^ ]*' "$DEMO" | sed 's/place in: *//; s#/$##')
[ -z "$PLACE" ] && { echo "no 'place in:' in demo"; exit 2; }
NAME=zz_seed_demo_test.go
run_demo() { cp "$DEMO" "$WT/$PLACE/$NAME"; (cd "$WT/$PLACE" && go test -count=1 -run "$(grep -o '^func Test[A-Za-z0-9_]*' "$DEMO" | sed 's/func //' | paste -sd'|')" . 2>&1 | tail -15); rc=${PIPESTATUS[0]}; rm -f "$WT/$PLACE/$NAME"; return $rc; }
echo "== pristine: demo must pass"; OUT=$(run_demo); echo "$OUT" | tail -3; echo "$OUT" | grep -q "^ok" && P_OK=1 || P_OK=0
git apply --whitespace=nowarn "$PATCH" || { echo "patch does not apply"; exit 2; }
echo "== mutated: build + existing tests"; go build ./... 2>&1 | tail -3; T=$(go test -count=1 ./... 2>&1 | grep -v "no test files"); echo "$T" | grep -v "^ok" | head -5; echo "$T" | grep -q "^FAIL" && T_OK=0 || T_OK=1
echo "== mutated: demo must fail"; OUT=$(run_demo); echo "$OUT" | tail -4; echo "$OUT" | grep -q "^ok" && M_FAIL=0 || M_FAIL=1
git checkout -q -- . && git clean -fdq
echo "RESULT pristine_demo_pass=$P_OK existing_tests_pass=$T_OK mutated_demo_fails=$M_FAIL"
