#!/usr/bin/env python3
"""Per-property plans and the check / replay entry points (DESIGN.md sections 6, 7)."""
import json, os, sys, time, shutil, hashlib, random

sys.path.insert(0, os.path.dirname(os.path.abspath(__file__)))
from orbverif import *  # noqa

# ---------------------------------------------------------------------------------------------
# Families: which TLA+ modules model-check and generate, and how the harness replays.
#   mc:   (module, cfg, {tier: constants})
#   gens: list of (module, cfg, mode, {tier: dict(num, depth, consts, seeds)})
FAMILIES = {
    "FUNDS": dict(
        mc=("MC_Funds", "MC_Funds.cfg", {"quick": {"MaxDepth": "2"}, "thorough": {"MaxDepth": "3"}}),
        gens=[
            ("Gen_Funds", "Gen_Funds.cfg", "bfs", {"quick": dict(depth=2, consts={"GenSet": '"small"'}),
                                                   "thorough": dict(depth=2, consts={"GenSet": '"small"'})}),
            ("Gen_Funds", "Gen_Funds.cfg", "sim", {"quick": dict(num=300, depth=8, consts={"GenSet": '"full"'}, seeds=1),
                                                   "thorough": dict(num=2500, depth=12, consts={"GenSet": '"full"'}, seeds=4)}),
        ],
        mode="app", controls="nopause,clean,noacts,nopt", swap=False),
    "PAUSE": dict(
        mc=("MC_Pause", "MC_Pause.cfg", {"quick": {"PauseSet": '"small"'}, "thorough": {"PauseSet": '"full"'}}),
        gens=[
            ("Gen_Pause", "Gen_Pause.cfg", "bfs", {"quick": dict(depth=2, consts={"GenSet": '"small"', "PauseSet": '"small"'}),
                                                   "thorough": dict(depth=3, consts={"GenSet": '"small"', "PauseSet": '"small"'})}),
            ("Gen_Pause", "Gen_Pause.cfg", "sim", {"quick": dict(num=300, depth=12, consts={"GenSet": '"full"', "PauseSet": '"full"'}, seeds=1),
                                                   "thorough": dict(num=2500, depth=25, consts={"GenSet": '"full"', "PauseSet": '"full"'}, seeds=4)}),
        ],
        mode="app", controls="nopause,nopt", swap=False),
    "REQ": dict(twice=True,
        mc=("MC_Req", "MC_Req.cfg", {"quick": {"ReqSet": '"small"'}, "thorough": {"ReqSet": '"full"'}}),
        gens=[("Gen_Req", "Gen_Req.cfg", "bfs", {"quick": dict(depth=1, consts={"ReqSet": '"small"'}),
                                               "thorough": dict(depth=1, consts={"ReqSet": '"full"'})})],
        replays=[dict(mode="instr", controls="", swap=False, extra=["-parseobs"]), dict(mode="app", controls="", swap=False)]),
    "FAULT": dict(
        mc=("MC_Fault", "MC_Fault.cfg", {"quick": {"FaultSet": '"single"', "MaxDepth": "2"}, "thorough": {"FaultSet": '"pairs"', "MaxDepth": "2"}}),
        gens=[("Gen_Fault", "Gen_Fault.cfg", "bfs", {"quick": dict(depth=1, consts={"FaultSet": '"single"', "GenSet": '"clean"'}),
                                                   "thorough": dict(depth=1, consts={"FaultSet": '"pairs"', "GenSet": '"clean"'})}),
              ("Gen_Fault", "Gen_Fault.cfg", "bfs", {"quick": dict(depth=1, consts={"FaultSet": '"single"', "GenSet": '"dust"'}),
                                                   "thorough": dict(depth=1, consts={"FaultSet": '"pairs"', "GenSet": '"dust"'})})],
        # second wiring: an injected failure comes WITH a non-nil zero response, as real Go servers may return
        # (noble-cctp's message server ends with `return &Response{...}, err`)
        replays=[dict(mode="instr", controls="", swap=False), dict(mode="instr", tag="instr-resp", controls="", swap=False, extra=["-faultresp"])]),
    "ORDER": dict(
        mc=("MC_Order", "MC_Order.cfg", {"quick": {"MaxDepth": "1"}, "thorough": {"MaxDepth": "2"}}),
        gens=[("Gen_Order", "Gen_Order.cfg", "bfs", {"quick": dict(depth=1, consts={}), "thorough": dict(depth=1, consts={})}),
              ("Gen_Order", "Gen_Order.cfg", "sim", {"quick": dict(num=200, depth=5, consts={}, seeds=1),
                                                    "thorough": dict(num=2000, depth=8, consts={}, seeds=3)})],
        replays=[dict(mode="instrswap", controls="", swap=True)]),
    "SWAPSTAT": dict(  # statistics keys shared by a swap's outgoing leg and same-denom traffic (swap output returning over IBC)
        mc=("MC_SwapStat", "MC_SwapStat.cfg", {"quick": {"MaxDepth": "4"}, "thorough": {"MaxDepth": "5"}}),
        gens=[("Gen_SwapStat", "Gen_SwapStat.cfg", "bfs", {"quick": dict(depth=4, consts={}), "thorough": dict(depth=5, consts={})})],
        replays=[dict(mode="instrswap", controls="", swap=True)]),
    "PARSE": dict(twice=True,
        mc=("MC_Parse", "MC_Parse.cfg", {"quick": {"ParseSet": '"small"', "NRandom": "20"}, "thorough": {"ParseSet": '"full"', "NRandom": "400"}}),
        gens=[("Gen_Parse", "Gen_Parse.cfg", "bfs", {"quick": dict(depth=1, consts={"ParseSet": '"small"', "NRandom": "20"}),
                                                   "thorough": dict(depth=1, consts={"ParseSet": '"full"', "NRandom": "400"})})],
        replays=[dict(mode="app", controls="", swap=False, extra=["-parseobs"])]),
    "IDENT": dict(
        mc=("MC_Ident", "MC_Ident.cfg", {"quick": {"IdentSet": '"small"'}, "thorough": {"IdentSet": '"full"'}}),
        gens=[("Gen_Ident", "Gen_Ident.cfg", "bfs", {"quick": dict(depth=2, consts={"IdentSet": '"small"'}),
                                                   "thorough": dict(depth=2, consts={"IdentSet": '"full"'})})],
        replays=[dict(mode="app", controls="", swap=False)]),
    "GENESIS": dict(
        mc=("MC_Genesis", "MC_Genesis.cfg", {"quick": {"MaxDepth": "1"}, "thorough": {"MaxDepth": "2"}}),
        gens=[("Gen_Genesis", "Gen_Genesis.cfg", "bfs", {"quick": dict(depth=1, consts={}), "thorough": dict(depth=1, consts={})})],
        replays=[dict(mode="app", controls="nopause", swap=False, extra=[])]),
    "DENOM": dict(twice=True,
        mc=("MC_Denom", "MC_Denom.cfg", {"quick": {"MaxDepth": "1"}, "thorough": {"MaxDepth": "1"}}),
        gens=[("Gen_Denom", "Gen_Denom.cfg", "bfs", {"quick": dict(depth=1, consts={}), "thorough": dict(depth=1, consts={})})],
        replays=[dict(mode="instr", controls="", swap=False), dict(mode="app", controls="", swap=False)]),
    "PASS": dict(twice=True,
        mc=("MC_Pass", "MC_Pass.cfg", {"quick": {"MaxDepth": "2"}, "thorough": {"MaxDepth": "3"}}),
        gens=[("Gen_Pass", "Gen_Pass.cfg", "bfs", {"quick": dict(depth=1, consts={}), "thorough": dict(depth=2, consts={})}),
              ("Gen_Pass", "Gen_Pass.cfg", "sim", {"quick": dict(num=300, depth=8, consts={}, seeds=1), "thorough": dict(num=2000, depth=12, consts={}, seeds=3)})],
        replays=[dict(mode="app", controls="", swap=False, extra=["-diff"])]),
    "STATS": dict(
        mc=("MC_Stats", "MC_Stats.cfg", {"quick": {"MaxDepth": "2", "StatSet": '"small"'}, "thorough": {"MaxDepth": "3", "StatSet": '"full"'}}),
        gens=[("Gen_Stats", "Gen_Stats.cfg", "bfs", {t: dict(depth=1, consts={"GenSet": '"%s"' % gs, "StatSet": ss}) for t, ss in (("quick", '"small"'), ("thorough", '"full"'))})
              for gs in ("empty", "one", "mixed", "seeded", "big", "prefix")]
             + [("Gen_Stats", "Gen_Stats.cfg", "sim", {"quick": dict(num=3, depth=12, consts={"StatSet": '"small"'}, seeds=1),
                                                     "thorough": dict(num=20, depth=30, consts={"StatSet": '"full"'}, seeds=3)})],
        replays=[dict(mode="app", controls="", swap=False)]),
    "DET": dict(
        mc=("MC_Funds", "MC_Funds.cfg", {"quick": {"MaxDepth": "1"}, "thorough": {"MaxDepth": "2"}}),
        gens=[("Gen_Funds", "Gen_Funds.cfg", "sim", {"quick": dict(num=150, depth=8, consts={"GenSet": '"full"'}, seeds=1),
                                                   "thorough": dict(num=1500, depth=12, consts={"GenSet": '"full"'}, seeds=2)}),
              ("Gen_Pause", "Gen_Pause.cfg", "sim", {"quick": dict(num=100, depth=10, consts={"GenSet": '"full"', "PauseSet": '"full"'}, seeds=1),
                                                   "thorough": dict(num=1000, depth=20, consts={"GenSet": '"full"', "PauseSet": '"full"'}, seeds=2)}),
              ("Gen_Parse", "Gen_Parse.cfg", "bfs", {"quick": dict(depth=1, consts={"ParseSet": '"small"', "NRandom": "5"}),
                                                   "thorough": dict(depth=1, consts={"ParseSet": '"full"', "NRandom": "50"})}),
              ("Gen_Req", "Gen_Req.cfg", "bfs", {"quick": dict(depth=1, consts={"ReqSet": '"small"'}), "thorough": dict(depth=1, consts={"ReqSet": '"full"'})}),
              ("Gen_Genesis", "Gen_Genesis.cfg", "bfs", {"quick": dict(depth=1, consts={}), "thorough": dict(depth=1, consts={})}),
              ("Gen_Pass", "Gen_Pass.cfg", "bfs", {"quick": dict(depth=1, consts={}), "thorough": dict(depth=1, consts={})}),
              ("Gen_Discard", "Gen_Discard.cfg", "bfs", {"quick": dict(depth=3, consts={}), "thorough": dict(depth=3, consts={})}),
              ("Gen_Discard", "Gen_Discard.cfg", "sim", {"quick": dict(num=100, depth=8, consts={}, seeds=1), "thorough": dict(num=1000, depth=12, consts={}, seeds=2)})],
        replays=[dict(mode="app", controls="", swap=False, extra=["-digests"], repeat={"quick": 3, "thorough": 5})]),
    "FEESBIG": dict(
        mc=("MC_FeesBig", "MC_FeesBig.cfg", {"quick": {"Ks": "{31, 32, 63, 64, 65, 128, 255, 256}"}, "thorough": {"Ks": "0..256"}}),
        shards={"quick": [{}], "thorough": [{"Ks": "%d..%d" % (a, min(a + 31, 256))} for a in range(0, 257, 32)]},
        gens=[("Gen_FeesBig", "Gen_FeesBig.cfg", "bfs", {"quick": dict(depth=1, consts={"Ks": "{31, 32, 63, 64, 65, 128, 255, 256}"}), "thorough": dict(depth=1, consts={})})],
        replays=[dict(mode="app", controls="", swap=False)]),
    "AUTHMOD": dict(   # the same admin alphabet on a chain whose authority is a MODULE account (gov)
        mc=("MC_Pause", "MC_Pause.cfg", {"quick": {"PauseSet": '"small"'}, "thorough": {"PauseSet": '"small"'}}),
        gens=[("Gen_Pause", "Gen_Pause.cfg", "bfs", {"quick": dict(depth=1, consts={"GenSet": '"full"', "PauseSet": '"full"'}),
                                                   "thorough": dict(depth=2, consts={"GenSet": '"small"', "PauseSet": '"small"'})}),
              ("Gen_Pause", "Gen_Pause.cfg", "sim", {"quick": dict(num=100, depth=10, consts={"GenSet": '"full"', "PauseSet": '"full"'}, seeds=1),
                                                   "thorough": dict(num=1000, depth=20, consts={"GenSet": '"full"', "PauseSet": '"full"'}, seeds=2)})],
        replays=[dict(mode="instrauth", controls="", swap=False)]),
    "BATCH": dict(     # batch sizes at the 100-identifier limit, all-or-nothing at the last position, overlapping batches
        mc=("MC_Batch", "MC_Batch.cfg", {"quick": {"MaxDepth": "2"}, "thorough": {"MaxDepth": "3"}}),
        gens=[("Gen_Batch", "Gen_Batch.cfg", "bfs", {"quick": dict(depth=2, consts={"GenSet": '"small"'}),
                                                   "thorough": dict(depth=3, consts={"GenSet": '"small"'})}),
              ("Gen_Batch", "Gen_Batch.cfg", "bfs", {"quick": dict(depth=1, consts={"GenSet": '"full"'}),
                                                   "thorough": dict(depth=2, consts={"GenSet": '"full"'})})],
        replays=[dict(mode="app", controls="", swap=False)]),
    "DISCARD": dict(   # steps whose branch is dropped (failed multi-message tx, simulation) between committed ones
        mc=("MC_Discard", "MC_Discard.cfg", {"quick": {"MaxDepth": "4"}, "thorough": {"MaxDepth": "5"}}),
        gens=[("Gen_Discard", "Gen_Discard.cfg", "bfs", {"quick": dict(depth=3, consts={}), "thorough": dict(depth=4, consts={})}),
              ("Gen_Discard", "Gen_Discard.cfg", "sim", {"quick": dict(num=100, depth=8, consts={}, seeds=1),
                                                      "thorough": dict(num=1500, depth=12, consts={}, seeds=2)})],
        replays=[dict(mode="app", controls="", swap=False)]),
    "TOUR": dict(      # state tour: every state of the COMPLETE pause-state graph, reached by its shortest history, then every probe
        mc=("MC_Pause", "MC_Pause.cfg", {"quick": {"PauseSet": '"small"'}, "thorough": {"PauseSet": '"small"'}}),
        gens=[("Gen_Pause", "Gen_Pause.cfg", "tour", {"quick": dict(sample=8, consts={"GenSet": '"full"', "PauseSet": '"small"', "TourMode": '"states"'}),
                                                    "thorough": dict(sample=1, consts={"GenSet": '"full"', "PauseSet": '"small"', "TourMode": '"states"'})})],
        replays=[dict(mode="app", controls="nopause,nopt", swap=False)]),
    "TOUREDGE": dict(  # transition tour: every transition of the COMPLETE pause-state graph (shortest history + the input)
        mc=("MC_Pause", "MC_Pause.cfg", {"quick": {"PauseSet": '"small"'}, "thorough": {"PauseSet": '"small"'}}),
        gens=[("Gen_Pause", "Gen_Pause.cfg", "tour", {"quick": dict(sample=160, consts={"GenSet": '"small"', "PauseSet": '"small"', "TourMode": '"edges"'}),
                                                    "thorough": dict(sample=1, consts={"GenSet": '"full"', "PauseSet": '"small"', "TourMode": '"edges"'})})],
        replays=[dict(mode="app", controls="nopause,nopt", swap=False)]),
    "RPCS": dict(      # every Msg RPC registered by the module (from the service descriptors) x every signer class
        mc=("MC_Pause", "MC_Pause.cfg", {"quick": {"PauseSet": '"small"'}, "thorough": {"PauseSet": '"small"'}}),
        gens=[("rpcs", None, "harness", {"quick": {}, "thorough": {}})],
        replays=[dict(mode="app", controls="", swap=False), dict(mode="instrauth", controls="", swap=False)]),
    "XFUND": dict(     # coins of the OTHER denomination on the orbiter account must never fund a transfer
        mc=("MC_XFund", "MC_XFund.cfg", {"quick": {"MaxDepth": "4"}, "thorough": {"MaxDepth": "5"}}),
        gens=[("Gen_XFund", "Gen_XFund.cfg", "bfs", {"quick": dict(depth=3, consts={}), "thorough": dict(depth=4, consts={})})],
        replays=[dict(mode="app", controls="clean,nopause", swap=False), dict(mode="instr", controls="", swap=False)]),
    "BIGSEQ": dict(
        mc=("MC_FeesBig", "MC_FeesBig.cfg", {"quick": {"Ks": "{64}"}, "thorough": {"Ks": "{64, 255}"}}),
        gens=[("Gen_BigSeq", "Gen_BigSeq.cfg", "bfs", {"quick": dict(depth=1, consts={}), "thorough": dict(depth=1, consts={})})],
        replays=[dict(mode="app", controls="clean", swap=False)]),
    "DUST": dict(
        mc=("MC_Dust", "MC_Dust.cfg", {"quick": {"MaxDepth": "3"}, "thorough": {"MaxDepth": "4"}}),
        gens=[("Gen_Dust", "Gen_Dust.cfg", "bfs", {"quick": dict(depth=3, consts={}), "thorough": dict(depth=4, consts={})})],
        replays=[dict(mode="app", controls="clean,nopt,nopause", swap=False)]),
    "FEES": dict(
        mc=("MC_Fees", "MC_Fees.cfg", {"quick": {"FeeSet": '"small"'}, "thorough": {"FeeSet": '"full"'}}),
        shards={"quick": [{"Amounts": "{%d}" % a} for a in (1, 3, 10000, 10001, 199999)],
                "thorough": [{"Amounts": "{%d}" % a} for a in (1, 2, 3, 9999, 10000, 10001, 19999, 20000, 199999)]},
        gens=[("Gen_Fees", "Gen_Fees.cfg", "bfs", {"quick": dict(depth=1, consts={"FeeSet": '"small"'}),
                                                 "thorough": dict(depth=1, consts={"FeeSet": '"full"'})})],
        replays=[dict(mode="app", controls="noacts", swap=False, extra=["-parseobs"])]),
}

# Properties: families that decide them, conformance groups reported with them, evidence texts.
PROPS = {
    "C01": dict(families=["FUNDS", "XFUND"], groups=["ack", "bal"], level="model_checking",
                rule="a step is non-trivial for C01 when it is a packet reception; distinct = distinct (abstract pre-state, abstract input)"),
    "C02": dict(families=["FUNDS", "FEESBIG", "XFUND", "BIGSEQ"], groups=["bal", "supply"], level="model_checking",
                rule="non-trivial = a successful orbiter transfer (success acknowledgement); distinct = distinct (abstract pre-state, abstract input)"),
    "C11": dict(families=["DUST", "FUNDS", "XFUND", "BIGSEQ"], groups=["ack", "bal", "stats", "xfers"], level="model_checking",
                rule="non-trivial = an orbiter packet received while the orbiter account holds coins, with the paired control run on the emptied account executed; distinct = distinct (pre-state, input)"),
    "C12": dict(families=["FUNDS", "STATS", "ORDER", "SWAPSTAT", "DISCARD", "GENESIS"], groups=["stats"], level="model_checking",
                rule="non-trivial = a successful orbiter transfer (statistics must change by exactly that transfer); all other steps are checked for 'unchanged'; distinct = distinct (pre-state, input)"),
    "C03": dict(families=["FAULT", "FUNDS", "BIGSEQ"], groups=["ack", "fired", "xfers", "events"], level="fault_enumeration", exhaustive=True,
                rule="FAULT: every (payload shape x armed fault set x clean/dusty state) is one execution with fault wrappers around the real dependencies; FUNDS: naturally occurring failures; non-trivial = a reception in which an armed fault actually fired or the transfer was refused; distinct = distinct (pre-state, input incl. fault set)"),
    "C06": dict(families=["ORDER"], groups=["ack", "actions", "req", "xfers", "events"], level="model_checking",
                rule="non-trivial = a packet whose payload carries actions (executed with recording decorators around the fee controller and the swap test controller) or repeats an action id; distinct = distinct (pre-state, input)"),
    "C14": dict(families=["PARSE", "FUNDS", "BIGSEQ", "PAUSE"], groups=["ack"], level="exploration",
                rule="TLC enumerates the finite grid templates x JSON paths x mutations completely; unstructured classes (random bytes as packet data, random memo bytes, random JSON under the real field names, extreme amounts/denoms/attribute values) are seeded-random representatives; each is one packet through the full app under recover(); non-trivial = every such packet; distinct = distinct abstract input"),
    "C20": dict(families=["IDENT"], groups=["ident"], level="model_checking", exhaustive=True,
                rule="one evaluation = one (protocol, counterparty string) pair sent through every identifier entry point; the evidence counts steps (batches of all strings per protocol and pre-state); non-trivial = every batch; distinct = distinct (pre-state, protocol)"),
    "C17": dict(families=["GENESIS", "PAUSE", "DISCARD"], groups=["genesis", "pause", "params", "stats"], level="model_checking", props=["C17", "C17b", "C17c"],
                rule="non-trivial = a genesis document accepted by validation (must initialise), or a re-import step inside a history (export -> validate -> init on a cleared store -> export must be the identity); distinct = distinct (pre-state, input)"),
    "C15": dict(families=["PARSE", "REQ", "FEES"], groups=["parse"], level="model_checking", exhaustive=True,
                rule="every document of the mutation grid (incl. unknown fields at every level, extra/duplicated root keys, wrong type URLs), of the (protocol id x attribute type x action id) grid and of the fee grid is handed to the real parser twice (acceptance, purity) and, when the public constructors accept the abstract payload, marshalled -> parsed -> compared -> re-marshalled; non-trivial = every such document; distinct = distinct abstract input"),
    "C16": dict(families=["DENOM", "XFUND"], groups=["ack", "bal"], level="model_checking", exhaustive=True,
                rule="every grid point (denom class x base x channel x amount encoding x fee/no fee) is one packet; non-trivial = a packet whose token is not a returning native (must be refused) or an accepted packet whose ICS-20 credit was recorded by the pass-through decorator; distinct = distinct abstract input x wiring"),
    "C07": dict(families=["PASS"], groups=["ack", "bal", "pause", "params", "stats"], level="exploration",
                rule="every non-orbiter packet / acknowledgement / timeout of the alphabet, alone and inside random histories that move the orbiter state, executed on two branches of the same state (through the orbiter middleware and through the wrapped transfer application alone); non-trivial = each such differential execution; distinct = distinct (pre-state, input)"),
    "C13": dict(families=["STATS"], groups=["qstats"], level="model_checking",
                rule="one evaluation = one complete query walk (all pages) or one direct lookup against the ledger observed in the same step; non-trivial = every query step; distinct = distinct (ledger, query)"),
    "C19": dict(families=["DET"], groups=[], level="exploration",
                rule="the same generated histories (random FUNDS and PAUSE histories, the parse-mutation grid, the request grid, the genesis-document grid, the pass-through grid) replayed in R independent OS processes (R=2 quick, 4 thorough; different GOMAXPROCS/GC settings, Go randomises map iteration per process); per step a digest of acknowledgement bytes, ordered events, exported orbiter state, full bank export and all-store hash; non-trivial = a step with peer digests; distinct = distinct (pre-state, input); error-branch coverage of the specification by the replayed steps is reported"),
    "C04": dict(symbolic=[("FeeMath", "Lemmas")], tlaps=["FeeProofs"], families=["FEES", "FEESBIG", "BIGSEQ"], groups=["ack", "bal"], level="model_checking", exhaustive=True,
                rule="every grid point (amount x fee-entry list) is one packet through the real application; non-trivial = the payload carries a fee action that parses; distinct = distinct abstract input"),
    "C05": dict(families=["REQ"], groups=["ack", "req"], level="model_checking", exhaustive=True,
                rule="every grid point (protocol id x attribute type x attribute values x pre-action) is one packet, executed once with recording wrappers around the real bridge servers and once through the simapp wiring; non-trivial = a successful transfer (request compared) or a mismatched/unrouted payload (must be refused); distinct = distinct abstract input x wiring"),
    "C08": dict(families=["PAUSE", "TOUR", "TOUREDGE", "BATCH", "DISCARD", "GENESIS"], groups=["ack", "pause"], level="model_checking",
                rule="non-trivial = a transfer with a parseable payload received while some protocol/destination is paused, or a pause/unpause message; distinct = distinct (pre-state, input)"),
    "C09": dict(families=["PAUSE", "TOUR", "DISCARD", "GENESIS"], groups=["ack", "pause"], level="model_checking",
                rule="non-trivial = a transfer with a parseable payload received while some action is paused, or a pause/unpause-action message; distinct = distinct (pre-state, input)"),
    "C10": dict(families=["PAUSE", "AUTHMOD", "RPCS"], groups=["ack", "pause", "params", "stats", "bal"], level="model_checking",
                rule="non-trivial = any authority message (every RPC x signer class x body class); distinct = distinct (pre-state, input)"),
    "C18": dict(families=["PAUSE", "TOUR", "DUST", "DISCARD", "GENESIS"], groups=["ack", "params"], level="model_checking",
                rule="non-trivial = a transfer with a non-empty passthrough payload, or an UpdateParams message; distinct = distinct (pre-state, input)"),
}

ASSUMPTIONS = [
    "ibc-go RecvPacket's cache-and-discard rule and baseapp's per-message rollback are reproduced by the harness (DESIGN.md 5.2)",
    "the abstraction/concretisation table of harness/cmd/orbsim/abstract.go (representatives per input class)",
    "TLC explores the specification exhaustively only within the stated constants; beyond them coverage is by seeded simulation",
    "amounts stay below 2^31 in TLC-validated traces (DESIGN.md section 8)",
]


def stable_hash(obj):
    return hashlib.sha1(json.dumps(obj, sort_keys=True).encode()).hexdigest()


def ev_key(ev):
    return stable_hash([ev["pre"], ev["in"]])


def run_family(fam, tier, seed, wd, specdir, report):
    from concurrent.futures import ThreadPoolExecutor
    F = FAMILIES[fam]
    shards = F.get("shards", {}).get(tier, [{}])
    nw = max(1, NCPU // max(1, min(len(shards), 8)))
    # 1. model checking of the family (the design satisfies the properties within the constants)
    mod, cfg, consts = F["mc"]

    def mc_one(sh):
        # one model-checking run per (module, constants) and check: families sharing a model (PAUSE, TOUR,
        # TOUREDGE) reuse the result of the run made earlier in the same check
        key = stable_hash([mod, cfg, consts[tier], sh])
        cache = report.setdefault("mc_cache", {})
        if key not in cache:
            cache[key] = model_check(specdir, mod, cfg, dict(consts[tier], **sh), timeout=7200, workers=nw, tag=stable_hash(sh)[:6])
        return cache[key]
    with ThreadPoolExecutor(max_workers=min(len(shards), 8)) as ex:
        mcs = list(ex.map(mc_one, shards))
    for mc in mcs:
        if mc not in report["mc"]:
            report["mc"].append(mc)
    log("model checking %s %s x %d shard(s): %d states, %d transitions, %.0fs" % (
        mod, consts[tier], len(shards), sum(m["states"] for m in mcs), sum(m["transitions"] for m in mcs), max(m["wall_s"] for m in mcs)))
    # 2. generation
    behs = []
    for gi, (gmod, gcfg, gmode, tiers) in enumerate(F["gens"]):
        t = tiers[tier]
        if gmode == "harness":
            # inputs enumerated from the CODE (service descriptors), not from the specification's alphabet
            outp = os.path.join(wd, "%s-%s.behaviours.ndjson" % (fam, gmod))
            rc, out, dt = run([BIN, gmod, "-out", outp], 600, what="orbsim " + gmod)
            if rc != 0:
                raise Machinery("orbsim %s failed (rc=%d): %s" % (gmod, rc, out[-2000:]))
            hs = [json.loads(l) for l in open(outp) if l.strip()]
            behs += hs
            log("enumerated %d single-RPC histories from the module's service descriptors (%s)" % (len(hs), (out.strip().splitlines() or [""])[0]))
        elif gmode == "bfs":
            def gen_one(sh):
                return generate(specdir, gmod, gcfg, dict(t["consts"], **sh), "bfs", 0, t["depth"], 0, timeout=3600, workers=nw, tag=stable_hash(sh)[:6])
            with ThreadPoolExecutor(max_workers=min(len(shards), 8)) as ex:
                res = list(ex.map(gen_one, shards))
            n0 = len(behs)
            for si, (hs, dt) in enumerate(res):
                for j, h in enumerate(hs):
                    if F.get("twice"):
                        # every input of the grid is delivered twice in a row: the specification judges
                        # each delivery from its own pre-state, so a first call that leaves something
                        # behind in process memory shows at the second
                        h = [x for x in h for _ in (0, 1)]
                    behs.append({"b": "%s-bfs%d-%d-%d" % (fam, gi, si, j), "steps": h})
            log("generated %d exhaustive histories of length %d (%s) in %.0fs" % (len(behs) - n0, t["depth"], gmod, max(r[1] for r in res)))
        elif gmode == "tour":
            hs, dt = generate(specdir, gmod, gcfg, dict(t["consts"]), "tour", 0, 0, 0, timeout=3600, workers=nw)
            # the tour is complete in the thorough tier; the quick tier replays every k-th history of it
            # (canonical order, residue class rotated by VERIF_SEED) - stated in the evidence
            k = t.get("sample", 1)
            hs = sorted(hs, key=lambda h: json.dumps(h, sort_keys=True))
            kept = [h for j, h in enumerate(hs) if j % k == seed % k]
            for j, h in enumerate(kept):
                behs.append({"b": "%s-tour%d-%d" % (fam, gi, j), "steps": h})
            report.setdefault("tours", []).append(dict(family=fam, mode=t["consts"]["TourMode"].strip('"'), histories_in_complete_tour=len(hs),
                                                       replayed=len(kept), sample_every=k))
            log("generated a %s tour of the complete state graph: %d histories, replaying %d (every %d%s), %d steps (%s) in %.0fs" % (
                t["consts"]["TourMode"].strip('"'), len(hs), len(kept), k, "th" if k > 1 else "", sum(len(h) for h in kept), gmod, dt))
        else:
            for s in range(t.get("seeds", 1)):
                sd = seed * 1000 + s + 1
                hs, dt = generate(specdir, gmod, gcfg, dict(t["consts"], **shards[s % len(shards)]), "sim", t["num"], t["depth"], sd, timeout=3600)
                for j, h in enumerate(hs):
                    behs.append({"b": "%s-sim%d-s%d-%d" % (fam, gi, sd, j), "steps": h})
                log("generated %d random histories of length %d (%s, seed %d) in %.0fs" % (len(hs), t["depth"], gmod, sd, dt))
    # 3. replay in the real code (possibly under several harness wirings) and 4. trace validation
    replays = F.get("replays") or [dict(mode=F["mode"], controls=F["controls"], swap=F["swap"])]
    all_recs, all_evs, by_id = [], [], {}
    for ri, R in enumerate(replays):
        rtag = R.get("tag", R["mode"])
        tagged = [{"b": "%s@%s" % (b["b"], rtag), "steps": b["steps"]} for b in behs]
        trace, dt = replay(tagged, wd, "%s-%s" % (fam, rtag), mode=R["mode"], controls=R["controls"], extra=R.get("extra"))
        log("replayed %d behaviours in the real code (%s mode%s) in %.0fs" % (len(tagged), R["mode"], " " + " ".join(R["extra"]) if R.get("extra") else "", dt))
        nrep = (R.get("repeat") or {}).get(tier, 1)
        if nrep > 1:
            attach_peers(trace, tagged, wd, "%s-%s" % (fam, rtag), R, nrep)
        recs, evs, dt = validate(specdir, trace, R.get("swap", False))
        log("validated %d observed steps against the specification in %.0fs" % (len(recs), dt))
        off = len(all_evs)
        for r in recs:
            r["k"] += off
        all_recs += recs
        all_evs += evs
        for b in tagged:
            by_id[b["b"]] = (b, R)
    report["families"][fam] = dict(behaviours=len(behs), steps=len(all_recs), replays=[dict(mode=R["mode"], controls=R["controls"]) for R in replays])
    return behs, all_recs, all_evs, by_id


def attach_peers(trace, tagged, wd, tag, R, nrep):
    """C19: replay the same histories in further independent OS processes; their per-step digests are
    attached to the first trace as "peers" (data plumbing only; TLC compares them). Odd-numbered peers
    have a DIFFERENT PROCESS HISTORY over the same committed histories: they replay the histories in
    reverse order and never execute the discarded steps (which by the specification - DiscardInert -
    leave no state): a node that did not serve a simulation must agree with one that did."""
    from concurrent.futures import ThreadPoolExecutor

    def one(k):
        extra = list(R.get("extra") or [])
        if k % 2 == 1:
            extra += ["-skipdisc", "-reverse"]
        t2, dt2 = replay(tagged, wd, "%s-rep%d" % (tag, k), mode=R["mode"], controls=R["controls"], extra=extra,
                         env={"GOMAXPROCS": str(1 + 3 * k), "GOGC": str(50 * k)})
        pl = {(l["b"], l["i"]): l for l in (json.loads(x) for x in open(t2))}
        os.remove(t2)
        log("replayed again in an independent process (#%d%s) in %.0fs" % (k + 1, ", reversed order, discarded steps not executed" if k % 2 == 1 else "", dt2))
        return pl
    with ThreadPoolExecutor(max_workers=4) as ex:
        peers = list(ex.map(one, range(1, nrep)))
    lines = [json.loads(l) for l in open(trace)]
    for pl in peers:
        if len(pl) != len(lines):
            raise Machinery("replays have different lengths")
    with open(trace, "w") as f:
        for ln in lines:
            key = (ln["b"], ln["i"])
            ps, texts = [], []
            for pl in peers:
                if key not in pl:
                    ps.append("MISALIGNED")
                    continue
                p = pl[key]
                if p["res"]["ack"] == "skipped":
                    continue        # this peer never ran the discarded step: nothing to compare
                ps.append(p["obs"]["x"]["dig"])
                if p["obs"]["x"]["dig"] != ln["obs"]["x"]["dig"]:
                    texts.append(p["res"]["text"][:400])
            ln["obs"]["x"]["peers"] = ps
            ln["obs"]["x"]["peerText"] = texts
            f.write(json.dumps(ln) + "\n")


def attribute(prop, recs, evs, behs_by_id, wd, specdir, report, tier="quick"):
    """Turn validator records into verdicts for `prop`."""
    P = PROPS[prop]
    known = load_known()
    integ = [r for r in recs if r["integ"]]
    if integ:
        raise Machinery("trace integrity failure (harness bug): %s" % integ[:3])
    pids = set(P.get("props", [prop]))
    viol = [r for r in recs if pids & set(r["viol"])]
    ante = [r for r in recs if pids & set(r["ante"])]
    report["evaluations"] += len(recs)
    report["nontrivial_keys"].update(ev_key(evs[r["k"] - 1]) for r in ante)
    # accepted behaviours: no divergence in the groups reported with this property, no violation
    bad_b = set(r["b"] for r in recs if pids & set(r["viol"]) or set(r["mism"]) & set(P["groups"]))
    allb = set(r["b"] for r in recs)
    report["traces_validated"] += len(allb - bad_b)
    # conformance notes
    notes = {}
    for r in recs:
        for g in r["mism"]:
            notes.setdefault(g, []).append(r)
    for g, rs in sorted(notes.items()):
        tag = "NOTE" if g in P["groups"] else "note"
        ex = evs[rs[0]["k"] - 1]
        log("%s spec-divergence group=%s steps=%d e.g. %s/%d: %s  [spec: %s, code: %s]" % (
            tag, g, len(rs), rs[0]["b"], rs[0]["i"], in_summary(ex["in"]), rs[0]["why"] or "ok", ex["res"]["ack"]))
    report["divergences"] = {g: len(rs) for g, rs in notes.items()}
    other = {}
    for r in recs:
        for c in r["viol"]:
            if c not in pids and not any(matches(e, c, evs[r["k"] - 1]) for e in known):
                other[c] = other.get(c, 0) + 1
    if other:
        log("note: other properties violated on observed steps of this run (decided by their own checks): %s" % other)

    # group violating steps by signature; known findings are reported once each
    new, knownhit = [], {}
    for r in viol:
        ev = evs[r["k"] - 1]
        hit = None
        for e in known:
            if matches(e, prop, ev):
                hit = e
                break
        if hit is not None:
            knownhit.setdefault(hit["id"], (hit, 0))
            knownhit[hit["id"]] = (hit, knownhit[hit["id"]][1] + 1)
        else:
            new.append((r, ev))
    for hid, (hit, n) in sorted(knownhit.items()):
        log("KNOWN-FINDING: property=%s %s (%d observed steps)" % (prop, hit["what"], n))
    report["known_findings"] = {k: v[1] for k, v in knownhit.items()}

    # candidates: one per distinct abstract input class, reproduced before being reported
    violations = []
    seen_sig = set()
    for r, ev in new:
        sig = stable_hash([ev["in"]])
        if sig in seen_sig:
            continue
        seen_sig.add(sig)
        if len(violations) >= 5:
            break
        b, R = behs_by_id[r["b"]]
        rp = dict(property=prop, mode=R["mode"], controls=R["controls"], swap=R.get("swap", False), extra=R.get("extra"),
                  repeat=(R.get("repeat") or {}).get(tier, 1),
                  behaviour={"b": "replay", "steps": b["steps"][:r["i"]]}, step=r["i"],
                  concrete=ev.get("concrete"), input=in_summary(ev["in"]), result=ev["res"])
        os.makedirs(os.path.join(WORK, "replay"), exist_ok=True)
        path = os.path.join(WORK, "replay", "%s-%s.json" % (prop, sig[:10]))
        json.dump(rp, open(path, "w"), indent=1)
        ok = do_replay(path, quiet=True)
        if ok is not True and rp["repeat"] > 1:
            # a genuine non-determinism shows only with some probability per attempt (e.g. the iteration
            # order of a two-element Go map differs between two processes half of the time)
            for _ in range(6):
                ok = do_replay(path, quiet=True)
                if ok is True:
                    break
        if ok is not True:
            # the violation may depend on what the same PROCESS executed before (state kept in Go
            # objects rather than in the chain state): retry with the preceding behaviours as context
            order = list(behs_by_id)
            idx = order.index(r["b"])
            rp["context"] = [behs_by_id[x][0] for x in order[max(0, idx - 4000):idx] if behs_by_id[x][1] is R]
            json.dump(rp, open(path, "w"))
            ok = do_replay(path, quiet=True)
        if ok is not True and rp["repeat"] > 1:
            # peers with a different process history (reversed order) ran the FOLLOWING behaviours first
            rp["context_after"] = [behs_by_id[x][0] for x in order[idx + 1:idx + 4001] if behs_by_id[x][1] is R]
            json.dump(rp, open(path, "w"))
            ok = do_replay(path, quiet=True)
        if ok is True:
            violations.append((path, r, ev))
        else:
            raise Machinery("candidate violation did not reproduce from %s" % path)
    return violations


def do_replay(path, quiet=False):
    """Re-executes a replay file; returns True when the property is violated again at its last step."""
    rp = json.load(open(path))
    wd = os.path.join(WORK, "replay", "run-%d" % os.getpid())
    os.makedirs(wd, exist_ok=True)
    try:
        specdir = prep_spec(wd)
        allb = rp.get("context", []) + [rp["behaviour"]] + rp.get("context_after", [])
        trace, _ = replay(allb, wd, "replay", mode=rp["mode"], controls=rp["controls"], extra=rp.get("extra"))
        if rp.get("repeat", 1) > 1:
            # a non-determinism may need several attempts to show again
            attach_peers(trace, allb, wd, "replay", rp, max(4, rp["repeat"]))
        recs, evs, _ = validate(specdir, trace, rp.get("swap", False), parallel=1)
        tgt = [k for k, r in enumerate(recs) if r["b"] == "replay"]
        last = recs[tgt[-1]]
        hit = bool(set(PROPS.get(rp["property"], {}).get("props", [rp["property"]])) & set(last["viol"]))
        if not quiet:
            ev = evs[tgt[-1]]
            log("replay of %s: step %d: %s" % (path, last["i"], in_summary(ev["in"])))
            log("  concrete: %s" % json.dumps(ev.get("concrete"))[:1500])
            log("  result:   %s" % json.dumps(ev["res"])[:1500])
            if ev["obs"].get("x", {}).get("peerText"):
                log("  other process: %s" % json.dumps(ev["obs"]["x"]["peerText"])[:1500])
            log("  violated on the observed step: %s; spec divergence groups: %s" % (last["viol"], last["mism"]))
        return hit
    finally:
        shutil.rmtree(wd, ignore_errors=True)


def symbolic_lemmas(specdir, module, inv, wd):
    """Unbounded arithmetic lemmas of the specification discharged by Apalache (SMT, no bound on the
    amount). A refuted lemma is a SPECIFICATION error (exit 2): verdicts come from the code only."""
    out_dir = os.path.join(wd, "apalache-" + module)
    cmd = ["apalache-mc", "check", "--init=Init", "--next=Next", "--inv=" + inv, "--length=0", "--out-dir=" + out_dir,
           os.path.join(specdir, module + ".tla")]
    rc, out, dt = run(cmd, 900, what="apalache " + module, cwd=wd)
    shutil.rmtree(out_dir, ignore_errors=True)
    if rc != 0 or "The outcome is: NoError" not in out:
        raise Machinery("Apalache did not discharge %s!%s (rc=%d):\n%s" % (module, inv, rc, out[-1500:]))
    n = len(set(re.findall(r"state invariant (\d+) holds", out)))
    log("Apalache discharged %s!%s (%d conjuncts, unbounded integers) in %.0fs" % (module, inv, n, dt))
    return dict(tool="apalache-mc 0.58.0", module=module, invariant=inv, conjuncts=n, bound="none (mathematical integers)", wall_s=round(dt, 1))


def tlaps_proofs(specdir, module, wd):
    """Lemmas of the specification proved by the TLA+ proof system (tlapm, SMT/Zenon/Isabelle back ends):
    for all naturals, no bound. An unproved obligation is a SPECIFICATION error (exit 2)."""
    d = os.path.join(wd, "tlaps-" + module)
    os.makedirs(d, exist_ok=True)
    shutil.copy(os.path.join(specdir, module + ".tla"), d)
    rc, out, dt = run(["tlapm", "--threads", "8", module + ".tla"], 900, what="tlapm " + module, cwd=d)
    m = re.search(r"All (\d+) obligations? proved", out)
    shutil.rmtree(d, ignore_errors=True)
    if rc != 0 or not m:
        raise Machinery("tlapm did not prove %s (rc=%d):\n%s" % (module, rc, out[-1500:]))
    log("TLAPS proved %s: %s obligations (all naturals) in %.0fs" % (module, m.group(1), dt))
    return dict(tool="tlapm 1.6.0-pre", module=module, obligations=int(m.group(1)), discharged=int(m.group(1)), bound="none (all naturals)", wall_s=round(dt, 1))


def check(prop, tier):
    t0 = time.time()
    seed = int(os.environ.get("VERIF_SEED", "1"))
    if prop not in PROPS:
        raise Machinery("no check registered for " + prop)
    P = PROPS[prop]
    wd = os.path.join(WORK, "%s-%s" % (prop, tier))
    shutil.rmtree(wd, ignore_errors=True)
    os.makedirs(wd)
    evidence_path = os.path.join(ROOT, "evidence", prop + ".json")
    if os.path.exists(evidence_path):
        os.remove(evidence_path)
    build()
    specdir = prep_spec(wd)
    report = dict(mc=[], families={}, evaluations=0, nontrivial_keys=set(), traces_validated=0)
    all_viol = []
    samples = []
    for fam in P["families"]:
        behs, recs, evs, by_id = run_family(fam, tier, seed, wd, specdir, report)
        all_viol += attribute(prop, recs, evs, by_id, wd, specdir, report, tier)
        report.setdefault("branches", set()).update(r["why"] or "success" for r in recs)
        # samples: a few actual non-trivial observed steps
        k = 0
        for r in recs:
            if set(PROPS[prop].get("props", [prop])) & set(r["ante"]) and k < 3:
                ev = evs[r["k"] - 1]
                samples.append(dict(behaviour=r["b"], step=r["i"], input=in_summary(ev["in"]), concrete=ev.get("concrete"),
                                    ack=ev["res"]["ack"], spec_branch=r["why"] or "success"))
                k += 1
        if behs:
            samples.append(dict(history=[in_summary(s) for s in behs[len(behs) // 2]["steps"]]))
    symbolic = [symbolic_lemmas(specdir, m, inv, wd) for m, inv in P.get("symbolic", [])]
    symbolic += [tlaps_proofs(specdir, m, wd) for m in P.get("tlaps", [])]
    nontriv = len(report["nontrivial_keys"])
    if nontriv < 2:
        raise Machinery("vacuous run: the antecedent of %s was true on %d distinct observed steps" % (prop, nontriv))
    ev = dict(
        property_id=prop, tier=tier, seed=seed, level=P["level"],
        coverage=dict(
            states=sum(m["states"] for m in report["mc"]), transitions=sum(m["transitions"] for m in report["mc"]),
            traces_validated_against_impl=report["traces_validated"], samples=samples,
            evaluations=report["evaluations"], distinct_nontrivial=nontriv, rule=P["rule"],
            model_checking=report["mc"], families=report["families"], tours=report.get("tours", []),
            spec_branches_reached=sorted(report.get("branches", [])),
            spec_divergences=report.get("divergences", {}), known_findings=report.get("known_findings", {}),
            symbolic_lemmas=symbolic,
            exhaustive=bool(P.get("exhaustive", False))),
        assumptions=ASSUMPTIONS, wall_s=round(time.time() - t0, 1), violations=len(all_viol))
    os.makedirs(os.path.dirname(evidence_path), exist_ok=True)
    json.dump(ev, open(evidence_path, "w"), indent=1)
    for path, r, e in all_viol:
        log("VIOLATION property=%s replay=%s" % (prop, path))
        log("  at %s step %d: %s -> %s" % (r["b"], r["i"], in_summary(e["in"]), e["res"]["ack"]))
        if r.get("detail"):
            log("  entries departing from the specification: %s" % json.dumps(r["detail"])[:1500])
    log("%s %s: %d observed steps evaluated, %d distinct non-trivial, %d behaviours accepted, %d new violations, %.0fs" % (
        prop, tier, report["evaluations"], nontriv, report["traces_validated"], len(all_viol), time.time() - t0))
    if tier == "quick" and not os.environ.get("VERIF_KEEP"):
        shutil.rmtree(wd, ignore_errors=True)
    return 1 if all_viol else 0


def main(argv):
    try:
        if len(argv) >= 2 and argv[0] == "replay":
            build()
            hit = do_replay(argv[1])
            if not hit and json.load(open(argv[1])).get("repeat", 1) > 1:
                # a non-determinism shows only with some probability per attempt
                for k in range(6):
                    log("attempt %d did not show it; replaying again" % (k + 1))
                    hit = do_replay(argv[1], quiet=True)
                    if hit:
                        break
            log("REPRODUCED" if hit else "NOT REPRODUCED")
            return 1 if hit else 0
        if len(argv) >= 1 and argv[0] == "selfcheck":
            import selfcheck
            return selfcheck.main(argv[1:])
        if len(argv) >= 2:
            return check(argv[0], argv[1])
        log("usage: check <ID> quick|thorough | check replay <path> | check selfcheck")
        return 2
    except Machinery as e:
        log("MACHINERY-FAILURE: %s" % e)
        return 2


if __name__ == "__main__":
    sys.exit(main(sys.argv[1:]))
