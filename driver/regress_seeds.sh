#!/bin/bash
# regress_seeds.sh [pattern] — re-runs every kept seeded change (seeded/*/patch.diff) against the check of the
# property it was written for (meta.json "breaks"), quick tier, and prints DETECTED / MISSED / BROKEN.
# /repo is restored after each. Takes ~2.5 h for all seeds; do not run while anything else uses /repo.
cd "$(dirname "$0")/.."
for d in seeded/${1:-*}/; do
  id=$(basename "$d")
  [ -f "$d/patch.diff" ] || continue
  props=$(python3 -c "import json;print(','.join(json.load(open('$d/meta.json')).get('detected_by') or json.load(open('$d/meta.json'))['breaks']))" 2>/dev/null)
  [ -z "$props" ] && continue
  p1=${props%%,*}
  res=$(python3 driver/seedtest.py "$PWD/$d/patch.diff" "$p1" 2>&1 | grep -m1 "DETECTED\|MISSED\|BROKEN\|does not apply\|refusing")
  echo "$id -> $res"
done
