#!/usr/bin/env python3
"""Writes /verif/MANIFEST.json from the plans in checks.py (kept valid at all times)."""
import json, os, sys
sys.path.insert(0, os.path.dirname(os.path.abspath(__file__)))
import checks

ROOT = checks.ROOT
TEXT = json.load(open(os.path.join(ROOT, "driver", "manifest_text.json")))
props = [json.loads(l)["id"] for l in open(os.path.join(ROOT, "properties.jsonl"))]

m = {
    "version": 1,
    "setup_cmd": "./build.sh",
    "hooks": {
        "guard": "verif",
        "enable": "go build -tags verif (harness/build.sh passes the tag; no hook is currently compiled in)",
        "baseline_off_cmd": "for m in . ./e2e ./simapp; do (cd /repo/$m && go test -json -vet=off -count=1 -timeout 25m ./...); done",
        "source_commits": TEXT.get("hook_commits", []),
        "add_only": True,
    },
    "engines": [
        {"name": "tlc", "path": "spec/", "serves_properties": sorted(checks.PROPS), "kind_free_text": "explicit TLA+ specification (spec/Orbiter.tla, OrbiterProps.tla) model-checked by TLC; TLC also generates input histories/grids and validates traces recorded from the real code (spec/OrbiterTrace.tla)"},
        {"name": "orbsim", "path": "harness/", "serves_properties": sorted(checks.PROPS), "kind_free_text": "Go conformance harness: real simapp in-process (bank, ICS-20, blockibc, FTF, CCTP, Hyperlane, orbiter); concretises abstract inputs, executes them, logs NDJSON traces; contains no expected values"},
    ],
    "checks": [],
    "not_applicable": [],
    "notes": TEXT.get("notes", ""),
}
for p in props:
    if p in checks.PROPS:
        t = TEXT["checks"][p]
        m["checks"].append({
            "property_id": p,
            "quick_cmd": "./check %s quick" % p,
            "thorough_cmd": "./check %s thorough" % p,
            "evidence_file": "/verif/evidence/%s.json" % p,
            "replay_cmd_template": "./check replay {path}",
            "engine": "tlc",
            "level_claimed": {"category": checks.PROPS[p]["level"], "text": t["text"], "design_ref": t.get("design_ref", "DESIGN.md section 7")},
            "level_note": t["note"],
            "technique": t["technique"],
        })
    else:
        m["not_applicable"].append({"property_id": p, "reason": TEXT["not_applicable"].get(p, "check not built yet in this round; not claimed (DESIGN.md section 12, r4)")})
json.dump(m, open(os.path.join(ROOT, "MANIFEST.json"), "w"), indent=1)
print("MANIFEST.json: %d checks, %d not applicable" % (len(m["checks"]), len(m["not_applicable"])))
