module orbverif/harness

go 1.24.0
