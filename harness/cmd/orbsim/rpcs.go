// rpcs.go — C10 quantifies over "every Msg RPC registered by the module (enumerated from the service
// descriptors, so new RPCs are included)". The enumeration therefore comes from the CODE: every method
// of every service named Msg in a protobuf package of the module whose request type the application's
// message router has a handler for. `orbsim rpcs` writes one single-step history per (RPC, signer
// class) with a default body; RPCs the specification does not know are built by reflection (default
// body, the cosmos.msg.v1.signer field set to the signer under test).
package main

import (
	"encoding/json"
	"flag"
	"fmt"
	"os"
	"reflect"
	"sort"
	"strings"

	msgv1 "cosmossdk.io/api/cosmos/msg/v1"
	sdk "github.com/cosmos/cosmos-sdk/types"
	gogoproto "github.com/cosmos/gogoproto/proto"
	protov2 "google.golang.org/protobuf/proto"
	"google.golang.org/protobuf/reflect/protoreflect"
)

const modulePkgPrefix = "noble.orbiter"

type rpcDesc struct {
	Method  string // short method name
	Service string
	Request string // full name of the request message
	Signers []string
}

func (w *World) enumerateRpcs() []rpcDesc {
	var out []rpcDesc
	gogoproto.HybridResolver.RangeFiles(func(fd protoreflect.FileDescriptor) bool {
		if !strings.HasPrefix(string(fd.Package()), modulePkgPrefix) {
			return true
		}
		svcs := fd.Services()
		for i := 0; i < svcs.Len(); i++ {
			sd := svcs.Get(i)
			if sd.Name() != "Msg" {
				continue
			}
			ms := sd.Methods()
			for j := 0; j < ms.Len(); j++ {
				md := ms.Get(j)
				req := md.Input()
				if w.app.MsgServiceRouter().HandlerByTypeURL("/"+string(req.FullName())) == nil {
					continue // declared but not registered with the application
				}
				d := rpcDesc{Method: string(md.Name()), Service: string(sd.FullName()), Request: string(req.FullName())}
				func() {
					defer func() { _ = recover() }()
					if opts := req.Options(); opts != nil {
						if v, ok := protov2.GetExtension(opts, msgv1.E_Signer).([]string); ok {
							d.Signers = v
						}
					}
				}()
				if len(d.Signers) == 0 {
					fs := req.Fields()
					for _, cand := range []string{"signer", "authority", "from", "sender"} {
						if fs.ByName(protoreflect.Name(cand)) != nil {
							d.Signers = []string{cand}
							break
						}
					}
				}
				out = append(out, d)
			}
		}
		return true
	})
	sort.Slice(out, func(i, j int) bool { return out[i].Service+out[i].Method < out[j].Service+out[j].Method })
	return out
}

// defaultMsg builds the request of an RPC the specification does not model: default body, the
// signer field(s) set to signer.
func (w *World) defaultMsg(method, signer string) sdk.Msg {
	for _, d := range w.enumerateRpcs() {
		if d.Method != method {
			continue
		}
		t := gogoproto.MessageType(d.Request)
		if t == nil {
			panic(machineryError{"no Go type for " + d.Request})
		}
		v := reflect.New(t.Elem())
		for i := 0; i < t.Elem().NumField(); i++ {
			tag := t.Elem().Field(i).Tag.Get("protobuf")
			for _, s := range d.Signers {
				if strings.Contains(","+tag+",", ",name="+s+",") && t.Elem().Field(i).Type.Kind() == reflect.String {
					v.Elem().Field(i).SetString(signer)
				}
			}
		}
		m, ok := v.Interface().(sdk.Msg)
		if !ok {
			panic(machineryError{"request of " + method + " is not an sdk.Msg"})
		}
		return m
	}
	panic(machineryError{"unknown rpc " + method})
}

var rpcSignerClasses = []string{"AUTH", "M", "EMPTY", "MALFORMED", "ORB", "DUST", "AUTH_UPPER", "AUTH_SPACE", "OTHER_HRP", "AUTH_MODNAME", "U"}

func cmdRpcs(args []string) {
	fs := flag.NewFlagSet("rpcs", flag.ExitOnError)
	outPath := fs.String("out", "", "behaviours NDJSON to write")
	must(fs.Parse(args))
	w, err := NewWorld(nil)
	must(err)
	rpcs := w.enumerateRpcs()
	if len(rpcs) == 0 {
		panic(machineryError{"no Msg RPC found in the module's service descriptors"})
	}
	out, err := os.Create(*outPath)
	must(err)
	defer out.Close()
	enc := json.NewEncoder(out)
	n := 0
	for _, d := range rpcs {
		if len(d.Signers) == 0 {
			panic(machineryError{"RPC " + d.Method + " declares no signer field"})
		}
		for _, s := range rpcSignerClasses {
			// the body is VALID for the RPCs the specification knows, so that nothing but the signer
			// decides: pause-type messages are valid on the fresh state, unpause-type messages after the
			// three committed pauses of the second variant (default body for an unknown RPC)
			in := Input{T: "admin", Rpc: d.Method, Signer: s, Pid: "CCTP", Aid: "FEE", V: 7, Who: "x"}
			if strings.Contains(d.Method, "CrossChains") {
				in.Pid, in.Cps = "HYP", []string{"1"}
			}
			in.Fw.Mint, in.Fw.Caller = "MINT_B", "CALLER_B"
			in.normalise()
			pres := []Input{
				{T: "admin", Rpc: "PauseProtocol", Signer: "AUTH", Pid: "CCTP"},
				{T: "admin", Rpc: "PauseCrossChains", Signer: "AUTH", Pid: "HYP", Cps: []string{"1"}},
				{T: "admin", Rpc: "PauseAction", Signer: "AUTH", Aid: "FEE"},
			}
			for i := range pres {
				pres[i].normalise()
			}
			// and once with the default (empty) body: the check must not depend on the rest of the message
			def := Input{T: "admin", Rpc: d.Method, Signer: s, Pid: "UNSUPPORTED", Aid: "UNSUPPORTED", Who: "x"}
			def.Fw.Mint, def.Fw.Caller = "MINT_B", "CALLER_B"
			def.normalise()
			must(enc.Encode(Behaviour{B: fmt.Sprintf("RPCS-%s-%s", d.Method, s), Steps: []Input{in}}))
			must(enc.Encode(Behaviour{B: fmt.Sprintf("RPCS-%s-%s-after", d.Method, s), Steps: append(append([]Input{}, pres...), in)}))
			must(enc.Encode(Behaviour{B: fmt.Sprintf("RPCS-%s-%s-default", d.Method, s), Steps: []Input{def}}))
			n += 3
		}
	}
	fmt.Fprintf(os.Stderr, "orbsim: %d Msg RPCs enumerated from the service descriptors, %d histories\n", len(rpcs), n)
	for _, d := range rpcs {
		fmt.Fprintf(os.Stderr, "  %s.%s(%s) signer=%v\n", d.Service, d.Method, d.Request, d.Signers)
	}
}
