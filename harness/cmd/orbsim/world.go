// world.go — the fixed test-bed world (DESIGN.md §3.3): one real SimApp on MemDB with bank,
// ICS-20, blockibc, FTF, CCTP, Hyperlane core + warp and the orbiter module wired exactly as
// /repo/simapp wires them. Everything here is set-up and concretisation; there are no expected
// values in this file.
package main

import (
	"encoding/json"
	"fmt"
	"time"

	"cosmossdk.io/log"
	"cosmossdk.io/math"
	abci "github.com/cometbft/cometbft/abci/types"
	cmtproto "github.com/cometbft/cometbft/proto/tendermint/types"
	cmttypes "github.com/cometbft/cometbft/types"
	dbm "github.com/cosmos/cosmos-db"
	"github.com/cosmos/cosmos-sdk/baseapp"
	"github.com/cosmos/cosmos-sdk/codec"
	"github.com/cosmos/cosmos-sdk/crypto/keys/ed25519"
	"github.com/cosmos/cosmos-sdk/crypto/keys/secp256k1"
	"github.com/cosmos/cosmos-sdk/testutil/mock"
	simtestutil "github.com/cosmos/cosmos-sdk/testutil/sims"
	sdk "github.com/cosmos/cosmos-sdk/types"
	authtypes "github.com/cosmos/cosmos-sdk/x/auth/types"
	banktypes "github.com/cosmos/cosmos-sdk/x/bank/types"
	transfertypes "github.com/cosmos/ibc-go/v8/modules/apps/transfer/types"
	channeltypes "github.com/cosmos/ibc-go/v8/modules/core/04-channel/types"
	porttypes "github.com/cosmos/ibc-go/v8/modules/core/05-port/types"

	hyputil "github.com/bcp-innovations/hyperlane-cosmos/util"
	ismtypes "github.com/bcp-innovations/hyperlane-cosmos/x/core/01_interchain_security/types"
	pdtypes "github.com/bcp-innovations/hyperlane-cosmos/x/core/02_post_dispatch/types"
	hypcoretypes "github.com/bcp-innovations/hyperlane-cosmos/x/core/types"
	warptypes "github.com/bcp-innovations/hyperlane-cosmos/x/warp/types"
	cctptypes "github.com/circlefin/noble-cctp/x/cctp/types"
	ftftypes "github.com/circlefin/noble-fiattokenfactory/x/fiattokenfactory/types"

	"github.com/noble-assets/orbiter/v2/simapp"
	"github.com/noble-assets/orbiter/v2/types/core"
)

const (
	chainID = "orbiter-1"
	// Authority configured in /repo/simapp/app.yaml.
	authorityAddr = "noble1zw7vatnx0vla7gzxucgypz0kfr6965akpvzw69"

	initEscrow = 1_000_000
	initUser   = 100_000
	burnLimit  = 150_000
)

// Tracked denominations of the abstract ledger.
// "ibc" is a pseudo-denom: the sum of all ibc/HASH vouchers.
var trackedDenoms = []string{"uusdc", "ustake", "uswap", "ibc"}

// World is one app instance plus the concretisation tables.
// chan1ID is the Noble-side identifier of the second channel: a sequence beyond 32 bits (ibc-go
// sequences are uint64), different from the counterparty end (channel-9).
const chan1ID = "channel-4294967296"

// cpChan1ID is the COUNTERPARTY end of the second channel: a valid ICS-24 identifier that does not
// have ibc-go's own channel-{N} shape (the counterparty chooses it).
const cpChan1ID = "noble-lane.1"

type World struct {
	app  *simapp.SimApp
	cdc  codec.Codec
	base sdk.Context // context after set-up; behaviours run on branches of it
	mod  porttypes.IBCModule

	acct     map[string]sdk.AccAddress // abstract account name -> address
	acctName map[string]string         // bech32 -> abstract name
	tracked  []string                  // tracked account names in a fixed order

	owner string // owner/pauser/blacklister of FTF, owner of hyperlane objects

	bytes32     map[string][]byte // abstract 32-byte values (mint recipients, callers, tokens, ...)
	bytes32Name map[string]string // hex -> abstract name

	chanOf   map[int]string // abstract channel -> Noble-side channel id
	cpChanOf map[int]string // abstract channel -> counterparty channel id

	seq uint64
}

func must(err error) {
	if err != nil {
		panic(err)
	}
}

func fixedAddr(tag string) sdk.AccAddress {
	b := make([]byte, 20)
	copy(b, []byte(tag))
	for i := len(tag); i < 20; i++ {
		b[i] = '_'
	}
	return sdk.AccAddress(b)
}

func b32(last byte, first byte) []byte {
	b := make([]byte, 32)
	b[0] = first
	b[31] = last
	return b
}

var sdkConfigured = false

func configureSDK() {
	if sdkConfigured {
		return
	}
	cfg := sdk.GetConfig()
	cfg.SetBech32PrefixForAccount("noble", "noblepub")
	cfg.SetBech32PrefixForValidator("noblevaloper", "noblevaloperpub")
	cfg.SetBech32PrefixForConsensusNode("noblevalcons", "noblevalconspub")
	sdkConfigured = true
}

// orbiterGenesisOverride, when non-nil, replaces the orbiter module's genesis in NewWorld
// (used by the full-chain reimport of C17).
func NewWorld(orbiterGenesisOverride json.RawMessage) (w *World, initErr error) {
	configureSDK()
	defer func() {
		if r := recover(); r != nil {
			w = nil
			initErr = fmt.Errorf("panic during world construction: %v", r)
		}
	}()

	app, err := simapp.NewSimApp(log.NewNopLogger(), dbm.NewMemDB(), nil, true,
		simtestutil.EmptyAppOptions{}, baseapp.SetChainID(chainID))
	must(err)
	cdc := app.OrbiterKeeper.Codec()

	w = &World{
		app: app, cdc: cdc,
		acct: map[string]sdk.AccAddress{}, acctName: map[string]string{},
		bytes32: map[string][]byte{}, bytes32Name: map[string]string{},
		chanOf:   map[int]string{0: "channel-0", 1: chan1ID},
		cpChanOf: map[int]string{0: "channel-7", 1: cpChan1ID},
	}

	// ---- accounts
	ownerPriv := secp256k1.GenPrivKeyFromSecret([]byte("orbverif-owner"))
	ownerAcc := authtypes.NewBaseAccount(ownerPriv.PubKey().Address().Bytes(), ownerPriv.PubKey(), 0, 0)
	w.owner = ownerAcc.GetAddress().String()

	w.addAcct("orb", core.ModuleAddress)
	w.addAcct("dust", authtypes.NewModuleAddress(core.DustCollectorName))
	w.addAcct("esc0", transfertypes.GetEscrowAddress("transfer", "channel-0"))
	w.addAcct("esc1", transfertypes.GetEscrowAddress("transfer", chan1ID))
	w.addAcct("U", fixedAddr("user-U"))
	w.addAcct("F1", fixedAddr("fee-F1"))
	w.addAcct("F2", fixedAddr("fee-F2"))
	w.addAcct("M", fixedAddr("mallory-M"))
	w.addAcct("cctp", authtypes.NewModuleAddress("cctp"))
	w.addAcct("warp", authtypes.NewModuleAddress("warp"))
	w.addAcct("hyp", authtypes.NewModuleAddress("hyperlane"))
	w.addAcct("xfer", authtypes.NewModuleAddress("transfer"))
	w.addAcct("pool", fixedAddr("swap-pool"))
	w.tracked = []string{"orb", "dust", "esc0", "esc1", "U", "F1", "F2", "M", "cctp", "warp", "hyp", "xfer", "pool"}
	auth, err := sdk.AccAddressFromBech32(authorityAddr)
	must(err)
	w.acct["AUTH"] = auth
	w.acctName[auth.String()] = "AUTH"

	// ---- abstract byte values (pairwise distinct so that swapped fields are visible)
	for name, v := range map[string][]byte{
		"MINT_A": b32(0xA1, 0x01), "MINT_B": b32(0xA2, 0x01), "MINT_ZERO": make([]byte, 32),
		"CALLER_A": b32(0xB1, 0x02), "CALLER_B": b32(0xB2, 0x02), "CALLER_ZERO": make([]byte, 32),
		"R_A": b32(0xC1, 0x03), "R_B": b32(0xC2, 0x03),
		"T_UNK": b32(0xD9, 0x04), "H_UNK": b32(0xE9, 0x05),
	} {
		w.addB32(name, v)
	}
	// wrong-length values (reverse names only; "MINT_ZERO" keeps the name of the 32 zero bytes)
	w.bytes32Name[fmt.Sprintf("%x", wrongLen("SHORT"))] = "SHORT"
	w.bytes32Name[fmt.Sprintf("%x", wrongLen("LONG33"))] = "LONG33"

	// ---- genesis
	gen := app.DefaultGenesis()
	// a fixed validator key: the world must be identical in every process (C19)
	privVal := mock.PV{PrivKey: ed25519.GenPrivKeyFromSecret([]byte("orbverif-validator"))}
	pubKey, err := privVal.GetPubKey()
	must(err)
	val := cmttypes.NewValidator(pubKey, 1)
	valSet := cmttypes.NewValidatorSet([]*cmttypes.Validator{val})
	bal := banktypes.Balance{Address: ownerAcc.GetAddress().String(),
		Coins: sdk.NewCoins(sdk.NewCoin(sdk.DefaultBondDenom, math.NewInt(1_000_000)))}
	gen, err = simtestutil.GenesisStateWithValSet(cdc, gen, valSet, []authtypes.GenesisAccount{ownerAcc}, bal)
	must(err)

	var bankGen banktypes.GenesisState
	cdc.MustUnmarshalJSON(gen[banktypes.ModuleName], &bankGen)
	bankGen.DenomMetadata = append(bankGen.DenomMetadata, banktypes.Metadata{
		Description: "USD Coin", Base: "uusdc", Display: "usdc", Name: "usdc", Symbol: "usdc",
		DenomUnits: []*banktypes.DenomUnit{{Denom: "uusdc", Exponent: 0, Aliases: []string{"microusdc"}}, {Denom: "usdc", Exponent: 6}},
	})
	gen[banktypes.ModuleName] = cdc.MustMarshalJSON(&bankGen)

	cctpAddr := authtypes.NewModuleAddress("cctp").String()
	ftfGen := ftftypes.GenesisState{
		Paused:       &ftftypes.Paused{Paused: false},
		MintersList:  []ftftypes.Minters{{Address: cctpAddr, Allowance: sdk.NewCoin("uusdc", math.NewInt(1_000_000_000))}},
		MintingDenom: &ftftypes.MintingDenom{Denom: "uusdc"},
		Owner:        &ftftypes.Owner{Address: w.owner},
		Pauser:       &ftftypes.Pauser{Address: fixedAddr("ftf-pauser").String()},
		Blacklister:  &ftftypes.Blacklister{Address: fixedAddr("ftf-blacklister").String()},
	}
	gen["fiat-tokenfactory"] = cdc.MustMarshalJSON(&ftfGen)

	cctpGen := cctptypes.GenesisState{
		Owner:  w.owner,
		Pauser: fixedAddr("cctp-pauser").String(),
		TokenMessengerList: []cctptypes.RemoteTokenMessenger{
			{DomainId: 0, Address: b32(0x70, 0x07)}, {DomainId: 1, Address: b32(0x71, 0x07)}},
		BurningAndMintingPaused:           &cctptypes.BurningAndMintingPaused{Paused: false},
		SendingAndReceivingMessagesPaused: &cctptypes.SendingAndReceivingMessagesPaused{Paused: false},
		PerMessageBurnLimitList:           []cctptypes.PerMessageBurnLimit{{Denom: "uusdc", Amount: math.NewInt(burnLimit)}},
		NextAvailableNonce:                &cctptypes.Nonce{Nonce: 0},
		SignatureThreshold:                &cctptypes.SignatureThreshold{Amount: 1},
		MaxMessageBodySize:                &cctptypes.MaxMessageBodySize{Amount: 8000},
	}
	gen["cctp"] = cdc.MustMarshalJSON(&cctpGen)

	if orbiterGenesisOverride != nil {
		gen[core.ModuleName] = orbiterGenesisOverride
	}

	stateBytes, err := json.MarshalIndent(gen, "", " ")
	must(err)
	_, err = app.InitChain(&abci.RequestInitChain{
		ChainId: chainID, Validators: []abci.ValidatorUpdate{},
		ConsensusParams: simtestutil.DefaultConsensusParams, AppStateBytes: stateBytes,
	})
	must(err)
	_, err = app.FinalizeBlock(&abci.RequestFinalizeBlock{Height: 1, Time: time.Unix(1700000000, 0), NextValidatorsHash: valSet.Hash()})
	must(err)
	_, err = app.Commit()
	must(err)

	ctx := app.BaseApp.NewUncachedContext(false, cmtproto.Header{Height: 2, ChainID: chainID, Time: time.Unix(1700000010, 0)})
	ctx = ctx.WithEventManager(sdk.NewEventManager())

	// Module accounts exist on a running chain (they are created on first use). Create them now:
	// crediting the ADDRESS of a module account that does not exist yet makes the SDK create a
	// plain account there, after which the module panics ("account is not a module account") -
	// an SDK/app-configuration hazard outside the orbiter (recorded in DESIGN.md).
	for _, name := range []string{"cctp", "warp", "hyperlane", "fiat-tokenfactory", "transfer", core.ModuleName, core.DustCollectorName} {
		app.AccountKeeper.GetModuleAccount(ctx, name)
	}

	// ---- IBC channels and escrows
	for i := 0; i < 2; i++ {
		app.IBCKeeper.ChannelKeeper.SetChannel(ctx, "transfer", w.chanOf[i], channeltypes.Channel{
			State: channeltypes.OPEN, Ordering: channeltypes.UNORDERED,
			Counterparty:   channeltypes.Counterparty{PortId: "transfer", ChannelId: w.cpChanOf[i]},
			ConnectionHops: []string{"connection-0"}, Version: "ics20-1",
		})
	}
	w.mint(ctx, "fiat-tokenfactory", "esc0", "uusdc", initEscrow)
	w.mint(ctx, "fiat-tokenfactory", "esc1", "uusdc", initEscrow)
	w.mint(ctx, "transfer", "esc0", "ustake", initEscrow)
	w.mint(ctx, "transfer", "esc1", "ustake", initEscrow)
	w.mint(ctx, "fiat-tokenfactory", "M", "uusdc", initUser)
	w.mint(ctx, "transfer", "M", "ustake", initUser)
	w.mint(ctx, "transfer", "pool", "uswap", initEscrow)
	// the big-amount denom: the whole range of sdkmath.Int (2^256-1) sits in escrow 0
	maxInt, _ := math.NewIntFromString(big256)
	bigCoins := sdk.NewCoins(sdk.NewCoin("ubig", maxInt))
	must(app.BankKeeper.MintCoins(ctx, "transfer", bigCoins))
	must(app.BankKeeper.SendCoinsFromModuleToAccount(ctx, "transfer", w.acct["esc0"], bigCoins))
	app.TransferKeeper.SetTotalEscrowForDenom(ctx, bigCoins[0])
	app.TransferKeeper.SetTotalEscrowForDenom(ctx, sdk.NewCoin("uusdc", math.NewInt(2*initEscrow)))
	app.TransferKeeper.SetTotalEscrowForDenom(ctx, sdk.NewCoin("ustake", math.NewInt(2*initEscrow)))

	// ---- Hyperlane: noop ISM, noop hook, mailbox, collateral tokens T1 (uusdc), T2 (ustake)
	ismID := w.run(ctx, &ismtypes.MsgCreateNoopIsm{Creator: w.owner}).(*ismtypes.MsgCreateNoopIsmResponse).Id
	hookID := w.run(ctx, &pdtypes.MsgCreateNoopHook{Owner: w.owner}).(*pdtypes.MsgCreateNoopHookResponse).Id
	mbID := w.run(ctx, &hypcoretypes.MsgCreateMailbox{Owner: w.owner, LocalDomain: 1313817164,
		DefaultIsm: ismID, DefaultHook: &hookID, RequiredHook: &hookID}).(*hypcoretypes.MsgCreateMailboxResponse).Id
	t1 := w.run(ctx, &warptypes.MsgCreateCollateralToken{Owner: w.owner, OriginMailbox: mbID, OriginDenom: "uusdc"}).(*warptypes.MsgCreateCollateralTokenResponse).Id
	t2 := w.run(ctx, &warptypes.MsgCreateCollateralToken{Owner: w.owner, OriginMailbox: mbID, OriginDenom: "ustake"}).(*warptypes.MsgCreateCollateralTokenResponse).Id
	hook2 := w.run(ctx, &pdtypes.MsgCreateNoopHook{Owner: w.owner}).(*pdtypes.MsgCreateNoopHookResponse).Id
	for _, t := range []hyputil.HexAddress{t1, t2} {
		for _, d := range []uint32{1, 2} {
			w.run(ctx, &warptypes.MsgEnrollRemoteRouter{Owner: w.owner, TokenId: t, RemoteRouter: &warptypes.RemoteRouter{
				ReceiverDomain: d, ReceiverContract: fmt.Sprintf("0x%064x", 0xF0+d), Gas: math.NewInt(0)}})
		}
	}
	w.addB32("T1", t1.Bytes())
	w.addB32("T2", t2.Bytes())
	w.addB32("H_NOOP", hook2.Bytes())
	w.addB32("H_DEFAULT", hookID.Bytes())
	// an interchain gas paymaster charging in ustake: required payment = gas limit (price 1, rate 1:1)
	igp := w.run(ctx, &pdtypes.MsgCreateIgp{Owner: w.owner, Denom: "ustake"}).(*pdtypes.MsgCreateIgpResponse).Id
	for _, d := range []uint32{1, 2} {
		w.run(ctx, &pdtypes.MsgSetDestinationGasConfig{Owner: w.owner, IgpId: igp, DestinationGasConfig: &pdtypes.DestinationGasConfig{
			RemoteDomain: d, GasOracle: &pdtypes.GasOracle{TokenExchangeRate: math.NewInt(10_000_000_000), GasPrice: math.NewInt(1)}, GasOverhead: math.NewInt(0)}})
	}
	w.addB32("H_IGP", igp.Bytes())

	mod, ok := app.IBCKeeper.Router.GetRoute("transfer")
	if !ok {
		panic("no transfer route")
	}
	w.mod = mod
	w.base = ctx
	return w, nil
}

func (w *World) addAcct(name string, a sdk.AccAddress) {
	w.acct[name] = a
	w.acctName[a.String()] = name
}

func (w *World) addB32(name string, v []byte) {
	w.bytes32[name] = v
	w.bytes32Name[fmt.Sprintf("%x", v)] = name
}

// wrongLen gives the byte values of the wrong-length classes: distinctive, so that a truncation or a
// padding into another value is visible.
func wrongLen(name string) []byte {
	if name == "SHORT" {
		return []byte{1, 2, 3}
	}
	v := make([]byte, 33)
	v[0], v[32] = 0xF1, 0x07
	return v
}

// nameOfCaller names a destination-caller value: 32 zero bytes are "CALLER_ZERO" in that field (the
// same bytes are "MINT_ZERO" as a mint recipient).
// origMsg gives the original CCTP message of a deposit replacement. Classes "WFR" / "WFO" are
// WELL-FORMED CCTP messages (116-byte header + burn body) whose destination-caller field is
// restricted (non-zero) / open (all zero); every other class is an opaque short byte string.
func origMsg(who string) []byte {
	if who != "WFR" && who != "WFO" {
		return []byte("orig-msg-" + who)
	}
	m := make([]byte, 116+132)
	for i := range m {
		m[i] = byte(1 + i%200)
	}
	for i := 0; i < 12; i++ { // version, source domain (4 = Noble), destination domain 0
		m[i] = 0
	}
	m[7] = 4
	if who == "WFO" {
		for i := 84; i < 116; i++ {
			m[i] = 0
		}
	}
	return m
}

// nameOfOrig maps the bytes of an original message back to the abstract text the specification uses.
func nameOfOrig(v []byte) string {
	for _, who := range []string{"WFR", "WFO"} {
		if string(v) == string(origMsg(who)) {
			return "orig-msg-" + who
		}
	}
	if len(v) > 40 {
		return fmt.Sprintf("?%x", v)
	}
	return string(v)
}

func (w *World) nameOfCaller(v []byte) string {
	if n := w.nameOfBytes(v); n != "CALLER_ZERO" && n != "MINT_ZERO" {
		return n
	}
	return "CALLER_ZERO"
}

func (w *World) nameOfBytes(v []byte) string {
	if len(v) == 0 {
		return "NONE"
	}
	if n, ok := w.bytes32Name[fmt.Sprintf("%x", v)]; ok {
		if n == "CALLER_ZERO" {
			return "MINT_ZERO" // one value, two abstract names: the field decides (nameOfCaller)
		}
		return n
	}
	return fmt.Sprintf("?%x", v)
}

func (w *World) nameOfAddr(bech string) string {
	if n, ok := w.acctName[bech]; ok {
		return n
	}
	// the abstraction of an address string is the ACCOUNT it denotes (all-upper-case bech32 is the
	// same account; mixed case does not decode)
	if a, err := sdk.AccAddressFromBech32(bech); err == nil {
		if n, ok := w.acctName[a.String()]; ok {
			return n
		}
	}
	return "?" + bech
}

func (w *World) mint(ctx sdk.Context, module, to, denom string, amt int64) {
	coins := sdk.NewCoins(sdk.NewCoin(denom, math.NewInt(amt)))
	must(w.app.BankKeeper.MintCoins(ctx, module, coins))
	must(w.app.BankKeeper.SendCoinsFromModuleToAccount(ctx, module, w.acct[to], coins))
}

// run executes a set-up message through the app's message router and returns its response.
func (w *World) run(ctx sdk.Context, msg sdk.Msg) sdk.Msg {
	h := w.app.MsgServiceRouter().Handler(msg)
	if h == nil {
		panic(fmt.Sprintf("no handler for %T", msg))
	}
	res, err := h(ctx, msg)
	must(err)
	if len(res.MsgResponses) == 0 {
		return nil
	}
	var m sdk.Msg
	must(w.cdc.UnpackAny(res.MsgResponses[0], &m))
	return m
}
