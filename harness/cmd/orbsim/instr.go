// instr.go — instrumented mode (DESIGN.md §3.2): a second keeper.Keeper over the same orbiter KV
// store, built through the module's public constructors with recording / fault-injecting
// wrappers that delegate to the REAL dependencies, plus a denomination-changing test action
// controller under ACTION_SWAP. All orbiter code executed is /repo's; only the wiring is ours.
package main

import (
	"context"
	"errors"
	"fmt"

	"cosmossdk.io/core/event"
	"cosmossdk.io/log"
	sdkmath "cosmossdk.io/math"
	"github.com/cosmos/cosmos-sdk/codec/address"
	"github.com/cosmos/cosmos-sdk/runtime"
	sdk "github.com/cosmos/cosmos-sdk/types"
	bankkeeper "github.com/cosmos/cosmos-sdk/x/bank/keeper"
	banktypes "github.com/cosmos/cosmos-sdk/x/bank/types"
	"github.com/cosmos/gogoproto/proto"
	"github.com/cosmos/ibc-go/v8/modules/apps/transfer"
	channeltypes "github.com/cosmos/ibc-go/v8/modules/core/04-channel/types"
	porttypes "github.com/cosmos/ibc-go/v8/modules/core/05-port/types"
	ibcexported "github.com/cosmos/ibc-go/v8/modules/core/exported"
	"google.golang.org/protobuf/runtime/protoiface"

	warpkeeper "github.com/bcp-innovations/hyperlane-cosmos/x/warp/keeper"
	warptypes "github.com/bcp-innovations/hyperlane-cosmos/x/warp/types"
	cctpkeeper "github.com/circlefin/noble-cctp/x/cctp/keeper"
	cctptypes "github.com/circlefin/noble-cctp/x/cctp/types"
	"github.com/circlefin/noble-fiattokenfactory/x/blockibc"

	"github.com/noble-assets/orbiter/v2/controller"
	actionctrl "github.com/noble-assets/orbiter/v2/controller/action"
	adapterctrl "github.com/noble-assets/orbiter/v2/controller/adapter"
	forwardingctrl "github.com/noble-assets/orbiter/v2/controller/forwarding"
	"github.com/noble-assets/orbiter/v2/entrypoint"
	"github.com/noble-assets/orbiter/v2/keeper"
	adaptercomp "github.com/noble-assets/orbiter/v2/keeper/component/adapter"
	executorcomp "github.com/noble-assets/orbiter/v2/keeper/component/executor"
	forwardercomp "github.com/noble-assets/orbiter/v2/keeper/component/forwarder"
	"github.com/noble-assets/orbiter/v2/testutil/testdata"
	"github.com/noble-assets/orbiter/v2/types"
	adaptertypes "github.com/noble-assets/orbiter/v2/types/component/adapter"
	executortypes "github.com/noble-assets/orbiter/v2/types/component/executor"
	forwardertypes "github.com/noble-assets/orbiter/v2/types/component/forwarder"
	actiontypes "github.com/noble-assets/orbiter/v2/types/controller/action"
	forwardingtypes "github.com/noble-assets/orbiter/v2/types/controller/forwarding"
	"github.com/noble-assets/orbiter/v2/types/core"
)

var errInjected = errors.New("orbverif: injected failure")

// faultResp: an injected failure returns a non-nil zero response next to the error. Go allows it and
// real servers do it (noble-cctp: `return &types.MsgDepositForBurnResponse{Nonce: nonce}, err`), so
// callers must decide on the error, never on the response.
var faultResp bool

func respOr[T any](zero *T) *T {
	if faultResp {
		return zero
	}
	return nil
}

// PerAction is the coin an action saw on entry and left on exit.
type PerAction struct {
	ID       string `json:"id"`
	InDenom  string `json:"inDenom"`
	InAmt    int64  `json:"inAmt"`
	OutDenom string `json:"outDenom"`
	OutAmt   int64  `json:"outAmt"`
	Err      bool   `json:"err"`
}

type Instr struct {
	w *World
	k *keeper.Keeper

	stack porttypes.IBCModule

	fwdMsg forwardertypes.MsgServer
	exeMsg executortypes.MsgServer
	adpMsg adaptertypes.MsgServer

	faults    map[string]bool
	fired     []string
	reqs      []Req
	reqsSet   bool
	perAction []PerAction
	feeSends  int
	ics20Bal  []DenomAmt // orbiter balance delta across the wrapped ICS-20 call
	ics20Seen bool
}

func (i *Instr) arm(f []string) {
	i.faults = map[string]bool{}
	for _, x := range f {
		i.faults[x] = true
	}
	i.fired = []string{}
	i.reqs = []Req{}
	i.reqsSet = true
	i.perAction = []PerAction{}
	i.feeSends = 0
	i.ics20Bal = nil
	i.ics20Seen = false
}

func (i *Instr) disarm() { i.faults = map[string]bool{}; i.reqsSet = false }

func (i *Instr) firedList() []string {
	if i.fired == nil {
		return []string{}
	}
	return i.fired
}

func (i *Instr) takeRequests() []Req {
	if !i.reqsSet {
		return nil
	}
	return i.reqs
}

func (i *Instr) takeExtra() map[string]any {
	x := map[string]any{"perAction": i.perAction}
	if i.ics20Seen {
		x["ics20Credit"] = i.ics20Bal
	} else {
		x["ics20Credit"] = []DenomAmt{}
	}
	x["ics20Seen"] = i.ics20Seen
	return x
}

// fail reports whether fault point p is armed; if so it records the firing.
func (i *Instr) fail(p string) bool {
	if i.faults[p] {
		i.fired = append(i.fired, p)
		return true
	}
	return false
}

// ---- wrappers ------------------------------------------------------------------------------

type bankWrap struct {
	i    *Instr
	real bankkeeper.Keeper
}

func (b bankWrap) GetBalance(ctx context.Context, addr sdk.AccAddress, denom string) sdk.Coin {
	return b.real.GetBalance(ctx, addr, denom)
}

func (b bankWrap) SendCoinsFromModuleToModule(ctx context.Context, from, to string, amt sdk.Coins) error {
	if b.i.fail("sweep") {
		return errInjected
	}
	return b.real.SendCoinsFromModuleToModule(ctx, from, to, amt)
}

// SendCoins is the fee controller's dependency.
func (b bankWrap) SendCoins(ctx context.Context, from, to sdk.AccAddress, amt sdk.Coins) error {
	b.i.feeSends++
	if b.i.fail(fmt.Sprintf("feeSend%d", b.i.feeSends)) {
		return errInjected
	}
	return b.real.SendCoins(ctx, from, to, amt)
}

type cctpWrap struct {
	i    *Instr
	real cctptypes.MsgServer
}

func (c cctpWrap) DepositForBurn(ctx context.Context, m *cctptypes.MsgDepositForBurn) (*cctptypes.MsgDepositForBurnResponse, error) {
	c.i.reqs = append(c.i.reqs, Req{Route: "CCTP", WithCaller: false, From: c.i.w.nameOfAddr(m.From),
		Amt: capInt(m.Amount), Denom: m.BurnToken, Dom: int64(m.DestinationDomain),
		Mint: c.i.w.nameOfBytes(m.MintRecipient), Caller: "NONE", Tok: "NONE", Rcp: "NONE", Hook: "NONE", Meta: "NONE", To: "NONE", Mfd: "NONE", Full: true})
	if c.i.fail("cctpBurn") {
		return respOr(&cctptypes.MsgDepositForBurnResponse{}), errInjected
	}
	return c.real.DepositForBurn(ctx, m)
}

func (c cctpWrap) DepositForBurnWithCaller(ctx context.Context, m *cctptypes.MsgDepositForBurnWithCaller) (*cctptypes.MsgDepositForBurnWithCallerResponse, error) {
	c.i.reqs = append(c.i.reqs, Req{Route: "CCTP", WithCaller: true, From: c.i.w.nameOfAddr(m.From),
		Amt: capInt(m.Amount), Denom: m.BurnToken, Dom: int64(m.DestinationDomain),
		Mint: c.i.w.nameOfBytes(m.MintRecipient), Caller: c.i.w.nameOfCaller(m.DestinationCaller),
		Tok: "NONE", Rcp: "NONE", Hook: "NONE", Meta: "NONE", To: "NONE", Mfd: "NONE", Full: true})
	if c.i.fail("cctpBurn") {
		return respOr(&cctptypes.MsgDepositForBurnWithCallerResponse{}), errInjected
	}
	return c.real.DepositForBurnWithCaller(ctx, m)
}

func (c cctpWrap) ReplaceDepositForBurn(ctx context.Context, m *cctptypes.MsgReplaceDepositForBurn) (*cctptypes.MsgReplaceDepositForBurnResponse, error) {
	c.i.reqs = append(c.i.reqs, Req{Route: "CCTP_REPLACE", From: c.i.w.nameOfAddr(m.From),
		Mint: c.i.w.nameOfBytes(m.NewMintRecipient), Caller: c.i.w.nameOfCaller(m.NewDestinationCaller),
		Tok: nameOfOrig(m.OriginalMessage), Rcp: string(m.OriginalAttestation), Hook: "NONE", Meta: "NONE", To: "NONE", Denom: "NONE", Mfd: "NONE", Full: true})
	if c.i.fail("cctpReplace") {
		return respOr(&cctptypes.MsgReplaceDepositForBurnResponse{}), errInjected
	}
	return c.real.ReplaceDepositForBurn(ctx, m)
}

type hypWrap struct {
	i    *Instr
	real forwardingtypes.HyperlaneHandler
}

func (h hypWrap) Token(ctx context.Context, q *warptypes.QueryTokenRequest) (*warptypes.QueryTokenResponse, error) {
	if h.i.fail("hypToken") {
		return respOr(&warptypes.QueryTokenResponse{}), errInjected
	}
	return h.real.Token(ctx, q)
}

func (h hypWrap) RemoteTransfer(ctx context.Context, m *warptypes.MsgRemoteTransfer) (*warptypes.MsgRemoteTransferResponse, error) {
	hook := "NONE"
	if m.CustomHookId != nil {
		hook = h.i.w.nameOfBytes(m.CustomHookId.Bytes())
	}
	meta := m.CustomHookMetadata
	if meta == "" {
		meta = "NONE"
	}
	h.i.reqs = append(h.i.reqs, Req{Route: "HYP", From: h.i.w.nameOfAddr(m.Sender), Amt: capInt(m.Amount),
		Denom: "?", Dom: int64(m.DestinationDomain), Tok: h.i.w.nameOfBytes(m.TokenId.Bytes()),
		Rcp: h.i.w.nameOfBytes(m.Recipient.Bytes()), Hook: hook, Gas: capInt(m.GasLimit),
		MaxFee: capInt(m.MaxFee.Amount), Mfd: m.MaxFee.Denom, Meta: meta, Mint: "NONE", Caller: "NONE", To: "NONE", Full: true})
	if h.i.fail("hypTransfer") {
		return respOr(&warptypes.MsgRemoteTransferResponse{}), errInjected
	}
	return h.real.RemoteTransfer(ctx, m)
}

type intWrap struct {
	i    *Instr
	real banktypes.MsgServer
}

func (s intWrap) Send(ctx context.Context, m *banktypes.MsgSend) (*banktypes.MsgSendResponse, error) {
	rq := Req{Route: "INT", From: s.i.w.nameOfAddr(m.FromAddress), To: s.i.w.nameOfAddr(m.ToAddress),
		Mint: "NONE", Caller: "NONE", Tok: "NONE", Rcp: "NONE", Hook: "NONE", Meta: "NONE", Mfd: "NONE", Full: true}
	if len(m.Amount) == 1 {
		rq.Amt = capInt(m.Amount[0].Amount)
		rq.Denom = m.Amount[0].Denom
	} else {
		rq.Denom = "?" + m.Amount.String()
	}
	s.i.reqs = append(s.i.reqs, rq)
	if s.i.fail("intSend") {
		return respOr(&banktypes.MsgSendResponse{}), errInjected
	}
	return s.real.Send(ctx, m)
}

type evSvc struct {
	i    *Instr
	real event.Service
}

type evMgr struct {
	i    *Instr
	real event.Manager
}

func (e evSvc) EventManager(ctx context.Context) event.Manager {
	return evMgr{i: e.i, real: e.real.EventManager(ctx)}
}

func (m evMgr) Emit(ctx context.Context, ev protoiface.MessageV1) error {
	var p string
	switch ev.(type) {
	case *actiontypes.EventFeeAction:
		p = "feeEmit"
	case *adaptertypes.EventPayloadProcessed:
		p = "processedEmit"
	default:
		p = "adminEmit"
	}
	if m.i.fail(p) {
		return errInjected
	}
	return m.real.Emit(ctx, ev)
}

func (m evMgr) EmitKV(ctx context.Context, t string, attrs ...event.Attribute) error {
	return m.real.EmitKV(ctx, t, attrs...)
}

func (m evMgr) EmitNonConsensus(ctx context.Context, ev protoiface.MessageV1) error {
	return m.real.EmitNonConsensus(ctx, ev)
}

// ics20Wrap decorates the wrapped ICS-20 application: fault "ics20" makes it return an error
// acknowledgement; otherwise it records what the transfer keeper really credited to the
// orbiter account (C16).
type ics20Wrap struct {
	porttypes.IBCModule
	i *Instr
}

func (m ics20Wrap) OnRecvPacket(ctx sdk.Context, p channeltypes.Packet, relayer sdk.AccAddress) ibcexported.Acknowledgement {
	if m.i.fail("ics20") {
		return channeltypes.NewErrorAcknowledgement(errInjected)
	}
	before := m.i.w.app.BankKeeper.GetAllBalances(ctx, m.i.w.acct["orb"])
	ack := m.IBCModule.OnRecvPacket(ctx, p, relayer)
	after := m.i.w.app.BankKeeper.GetAllBalances(ctx, m.i.w.acct["orb"])
	diff, _ := after.SafeSub(before...)
	m.i.ics20Seen = true
	m.i.ics20Bal = []DenomAmt{}
	for _, c := range diff {
		if !c.Amount.IsZero() {
			m.i.ics20Bal = append(m.i.ics20Bal, DenomAmt{D: c.Denom, A: capInt(c.Amount)})
		}
	}
	return ack
}

// ---- recording decorators around action controllers (C06) ----------------------------------

type actionRec struct {
	types.ActionController
	i *Instr
}

func (a actionRec) HandlePacket(ctx context.Context, p *types.ActionPacket) error {
	ta := p.TransferAttributes
	rec := PerAction{ID: actionName(a.ID()), InDenom: ta.DestinationDenom(), InAmt: capInt(ta.DestinationAmount())}
	err := a.ActionController.HandlePacket(ctx, p)
	rec.OutDenom, rec.OutAmt, rec.Err = ta.DestinationDenom(), capInt(ta.DestinationAmount()), err != nil
	a.i.perAction = append(a.i.perAction, rec)
	return err
}

// swapController is the denomination-changing test controller registered under ACTION_SWAP:
// it sends the whole running coin to the pool account, receives floor(amt/2) of "uswap" from
// the pool, and sets the destination coin accordingly. It uses the real bank keeper.
type swapController struct {
	*controller.BaseController[core.ActionID]
	i *Instr
}

func (s *swapController) HandlePacket(ctx context.Context, p *types.ActionPacket) error {
	if s.i.fail("swapSend") {
		return errInjected
	}
	w := s.i.w
	ta := p.TransferAttributes
	in := sdk.NewCoin(ta.DestinationDenom(), ta.DestinationAmount())
	out := sdk.NewCoin("uswap", ta.DestinationAmount().QuoRaw(2))
	if at, err := p.Action.CachedAttributes(); err == nil {
		if t, ok := at.(*testdata.TestActionAttr); ok && t.Whatever == "x3" {
			out = sdk.NewCoin("uswap", ta.DestinationAmount().MulRaw(3))
		}
	}
	if !out.IsPositive() {
		return errors.New("swap output would be zero")
	}
	if err := w.app.BankKeeper.SendCoins(ctx, w.acct["orb"], w.acct["pool"], sdk.NewCoins(in)); err != nil {
		return err
	}
	if err := w.app.BankKeeper.SendCoins(ctx, w.acct["pool"], w.acct["orb"], sdk.NewCoins(out)); err != nil {
		return err
	}
	ta.SetDestinationDenom(out.Denom)
	ta.SetDestinationAmount(out.Amount)
	return nil
}

// ---- construction ----------------------------------------------------------------------------

var testdataRegistered = false

// authorityOverride, when set, is the authority of the instrumented keeper (C10: a chain whose
// authority is a MODULE account, e.g. gov).
var authorityOverride string

func NewInstr(w *World, withSwap bool) *Instr {
	i := &Instr{w: w, faults: map[string]bool{}}
	app := w.app
	bw := bankWrap{i: i, real: app.BankKeeper}

	if withSwap && !testdataRegistered {
		// the repository's own test attribute type, registered for this process only
		reg := w.cdc.InterfaceRegistry()
		reg.RegisterImplementations((*core.ActionAttributes)(nil), &testdata.TestActionAttr{})
		testdataRegistered = true
	}

	k := keeper.NewKeeper(w.cdc, address.NewBech32Codec("noble"), log.NewNopLogger(),
		evSvc{i: i, real: runtime.EventService{}},
		runtime.NewKVStoreService(app.GetKey(core.ModuleName)),
		instrAuthority(app.OrbiterKeeper.Authority()), bw)
	i.k = k

	// forwarding controllers over recording/fault wrappers that delegate to the real servers
	cctp, err := forwardingctrl.NewCCTPController(log.NewNopLogger(), cctpWrap{i: i, real: cctpkeeper.NewMsgServerImpl(app.CCTPKeeper)})
	must(err)
	hyp, err := forwardingctrl.NewHyperlaneController(log.NewNopLogger(), hypWrap{i: i,
		real: forwardingtypes.NewHyperlaneHandler(warpkeeper.NewMsgServerImpl(app.WarpKeeper), warpkeeper.NewQueryServerImpl(app.WarpKeeper))})
	must(err)
	internal, err := forwardingctrl.NewInternalController(log.NewNopLogger(), intWrap{i: i, real: bankkeeper.NewMsgServerImpl(app.BankKeeper)})
	must(err)
	must(k.SetForwardingControllers(cctp, hyp, internal))

	fee, err := actionctrl.NewFeeController(log.NewNopLogger(), evSvc{i: i, real: runtime.EventService{}}, bw)
	must(err)
	acts := []types.ActionController{actionRec{ActionController: fee, i: i}}
	if withSwap {
		base, err := controller.NewBase(core.ACTION_SWAP)
		must(err)
		acts = append(acts, actionRec{ActionController: &swapController{BaseController: base, i: i}, i: i})
	}
	must(k.SetActionControllers(acts...))

	ibc, err := adapterctrl.NewIBCAdapter(w.cdc, log.NewNopLogger())
	must(err)
	must(k.SetAdapterControllers(ibc))

	var stack porttypes.IBCModule
	stack = ics20Wrap{IBCModule: transfer.NewIBCModule(app.TransferKeeper), i: i}
	stack = entrypoint.NewIBCMiddleware(stack, app.IBCKeeper.ChannelKeeper, k.Adapter())
	stack = blockibc.NewIBCMiddleware(stack, app.FTFKeeper)
	i.stack = stack

	i.fwdMsg = forwardercomp.NewMsgServer(k.Forwarder(), k)
	i.exeMsg = executorcomp.NewMsgServer(k.Executor(), k)
	i.adpMsg = adaptercomp.NewMsgServer(k.Adapter(), k)
	return i
}

// handleMsg routes orbiter messages to the instrumented keeper's message servers and everything
// else to the app's router.
func (i *Instr) handleMsg(ctx sdk.Context, msg sdk.Msg) error {
	var err error
	switch m := msg.(type) {
	case *forwardertypes.MsgPauseProtocol:
		_, err = i.fwdMsg.PauseProtocol(ctx, m)
	case *forwardertypes.MsgUnpauseProtocol:
		_, err = i.fwdMsg.UnpauseProtocol(ctx, m)
	case *forwardertypes.MsgPauseCrossChains:
		_, err = i.fwdMsg.PauseCrossChains(ctx, m)
	case *forwardertypes.MsgUnpauseCrossChains:
		_, err = i.fwdMsg.UnpauseCrossChains(ctx, m)
	case *forwardertypes.MsgReplaceDepositForBurn:
		_, err = i.fwdMsg.ReplaceDepositForBurn(ctx, m)
	case *executortypes.MsgPauseAction:
		_, err = i.exeMsg.PauseAction(ctx, m)
	case *executortypes.MsgUnpauseAction:
		_, err = i.exeMsg.UnpauseAction(ctx, m)
	case *adaptertypes.MsgUpdateParams:
		_, err = i.adpMsg.UpdateParams(ctx, m)
	default:
		h := i.w.app.MsgServiceRouter().Handler(msg)
		if h == nil {
			panic(machineryError{fmt.Sprintf("no handler for %T", msg)})
		}
		_, err = h(ctx, msg)
	}
	return err
}

var (
	_ = sdkmath.ZeroInt
	_ proto.Message
)

func instrAuthority(def string) string {
	if authorityOverride != "" {
		return authorityOverride
	}
	return def
}
