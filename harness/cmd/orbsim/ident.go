// ident.go — identifier entry points (C20) and genesis documents (C17). Pure observation.
package main

import (
	"fmt"
	gomath "math"
	"strings"

	"cosmossdk.io/math"

	sdk "github.com/cosmos/cosmos-sdk/types"

	orbitertypes "github.com/noble-assets/orbiter/v2/types"
	adaptertypes "github.com/noble-assets/orbiter/v2/types/component/adapter"
	dispatchertypes "github.com/noble-assets/orbiter/v2/types/component/dispatcher"
	executortypes "github.com/noble-assets/orbiter/v2/types/component/executor"
	forwardertypes "github.com/noble-assets/orbiter/v2/types/component/forwarder"
	"github.com/noble-assets/orbiter/v2/types/core"
)

var protoByName = map[string]core.ProtocolID{
	"UNSUPPORTED": core.PROTOCOL_UNSUPPORTED, "IBC": core.PROTOCOL_IBC, "CCTP": core.PROTOCOL_CCTP,
	"HYP": core.PROTOCOL_HYPERLANE, "INT": core.PROTOCOL_INTERNAL, "P5": 5, "P99": 99,
}

var actionByName = map[string]core.ActionID{
	"UNSUPPORTED": core.ACTION_UNSUPPORTED, "FEE": core.ACTION_FEE, "SWAP": core.ACTION_SWAP, "A7": 7,
}

type IdentRes struct {
	Cp        string   `json:"cp"`
	Chars     []string `json:"chars"`
	Dom       int64    `json:"dom"`
	NewOk     bool     `json:"newOk"`
	ID        string   `json:"id"`
	ParseOk   bool     `json:"parseOk"`
	ParsePid  string   `json:"parsePid"`
	ParseCp   string   `json:"parseCp"`
	PauseOk   bool     `json:"pauseOk"`
	UnpauseOk bool     `json:"unpauseOk"`
	QueryOk   bool     `json:"queryOk"`
	StatsOk   bool     `json:"statsOk"`
	GenesisOk bool     `json:"genesisOk"`
	ProbeRun  bool     `json:"probeRun"`
	ProbeOk   bool     `json:"probeOk"`
	CtlOk     bool     `json:"ctlOk"`
	Listed    bool     `json:"listed"` // after a successful pause the paused-cross-chains query lists exactly this string
	// the same string inside a batch, followed by / surrounded by fresh valid identifiers
	BatchFirstOk bool `json:"batchFirstOk"`
	BatchMidOk   bool `json:"batchMidOk"`
}

// freshCps are two valid identifiers of the protocol that no grid string equals.
func freshCps(pid string) (string, string) {
	switch pid {
	case "IBC":
		return "channel-4000000", "channel-4000001"
	case "INT":
		return "fresh-a", "fresh-b"
	}
	return "4000000", "4000001"
}

func (r *Runner) doIdent(bctx sdk.Context, ln *Line) {
	w := r.w
	in := &ln.In
	pid := protoByName[in.Pid]
	pname, okName := pidName[in.Pid]
	if !okName {
		pname = in.Pid
	}
	out := []IdentRes{}
	for _, e := range in.Ids {
		res := IdentRes{Cp: e.Cp, Chars: e.Chars, Dom: e.Dom}
		id, err := core.NewCrossChainID(pid, e.Cp)
		res.NewOk = err == nil
		raw := core.CrossChainID{ProtocolId: pid, CounterpartyId: e.Cp}
		res.ID = raw.ID()
		if back, err := core.ParseCrossChainID(res.ID); err == nil {
			res.ParseOk = true
			res.ParsePid = protoName(back.ProtocolId)
			res.ParseCp = back.CounterpartyId
		}
		_ = id

		// message entry point, on a throw-away branch
		c, _ := bctx.CacheContext()
		pres, _ := r.msgOn(c, &forwardertypes.MsgPauseCrossChains{Signer: w.acct["AUTH"].String(), ProtocolId: pname, CounterpartyIds: []string{e.Cp}})
		res.PauseOk = pres.Ack == "ok"
		if res.PauseOk {
			var pc forwardertypes.QueryPausedCrossChainsResponse
			if err := w.grpcQuery(c, "/noble.orbiter.component.forwarder.v1.Query/PausedCrossChains",
				&forwardertypes.QueryPausedCrossChainsRequest{ProtocolId: pname}, &pc); err == nil {
				res.Listed = len(pc.CounterpartyIds) == 1 && pc.CounterpartyIds[0] == e.Cp
			}
			if e.Dom >= 0 && (in.Pid == "CCTP" || in.Pid == "HYP") {
				probe := Input{T: "recv", Chan: 0, Rcv: "ORB", Dn: "RET", Base: "uusdc", Amt: 1000, Mk: "PAYLOAD"}
				if in.Pid == "CCTP" {
					probe.Fw = Fw{Pid: "CCTP", At: "CCTP", Dom: e.Dom, Mint: "MINT_A", Caller: "NONE"}
				} else {
					probe.Fw = Fw{Pid: "HYP", At: "HYP", Dom: e.Dom, Tok: "T1", Rcp: "R_A", Hook: "NONE", Meta: "NONE"}
				}
				probe.normalise()
				p, _ := r.packet(&probe)
				res.ProbeRun = true
				c1, _ := c.CacheContext()
				pr, _ := r.recvOn(c1, r.mod, p)
				res.ProbeOk = pr.Ack == "ok"
				c2, _ := bctx.CacheContext()
				cr, _ := r.recvOn(c2, r.mod, p)
				res.CtlOk = cr.Ack == "ok"
			}
			ures, _ := r.msgOn(c, &forwardertypes.MsgUnpauseCrossChains{Signer: w.acct["AUTH"].String(), ProtocolId: pname, CounterpartyIds: []string{e.Cp}})
			res.UnpauseOk = ures.Ack == "ok"
		}

		// the batch entry points: the spelling in the first / a middle position of a batch
		fa, fb := freshCps(in.Pid)
		cb, _ := bctx.CacheContext()
		bres, _ := r.msgOn(cb, &forwardertypes.MsgPauseCrossChains{Signer: w.acct["AUTH"].String(), ProtocolId: pname, CounterpartyIds: []string{e.Cp, fa}})
		res.BatchFirstOk = bres.Ack == "ok"
		cb, _ = bctx.CacheContext()
		bres, _ = r.msgOn(cb, &forwardertypes.MsgPauseCrossChains{Signer: w.acct["AUTH"].String(), ProtocolId: pname, CounterpartyIds: []string{fa, e.Cp, fb}})
		res.BatchMidOk = bres.Ack == "ok"

		// query entry points
		var ic forwardertypes.QueryIsCrossChainPausedResponse
		res.QueryOk = w.grpcQuery(bctx, "/noble.orbiter.component.forwarder.v1.Query/IsCrossChainPaused",
			&forwardertypes.QueryIsCrossChainPausedRequest{ProtocolId: pname, CounterpartyId: e.Cp}, &ic) == nil
		var dc dispatchertypes.QueryDispatchedCountsResponse
		err = w.grpcQuery(bctx, "/noble.orbiter.component.dispatcher.v1.Query/DispatchedCounts",
			&dispatchertypes.QueryDispatchedCountsRequest{SourceProtocolId: "PROTOCOL_IBC", SourceCounterpartyId: "channel-0",
				DestinationProtocolId: pname, DestinationCounterpartyId: e.Cp}, &dc)
		res.StatsOk = err == nil || !strings.Contains(err.Error(), "InvalidArgument")

		// genesis validation
		g := orbitertypes.DefaultGenesisState()
		g.ForwarderGenesis.PausedCrossChainIds = []*core.CrossChainID{{ProtocolId: pid, CounterpartyId: e.Cp}}
		res.GenesisOk = func() (ok bool) {
			defer func() {
				if rec := recover(); rec != nil {
					ok = false
				}
			}()
			return g.Validate() == nil
		}()
		out = append(out, res)
	}
	ln.Res = Res{Ack: "ok"}
	ln.Obs.X = map[string]any{"ids": out}
}

// ---- genesis documents (C17b) -----------------------------------------------------------------

func ccid(p, c string) *core.CrossChainID {
	if p == "NIL" {
		return nil
	}
	return &core.CrossChainID{ProtocolId: protoByName[p], CounterpartyId: c}
}

func (r *Runner) doGendoc(bctx sdk.Context, ln *Line) {
	w := r.w
	g := ln.In.G
	gs := orbitertypes.GenesisState{
		AdapterGenesis:    &adaptertypes.GenesisState{Params: adaptertypes.Params{MaxPassthroughPayloadSize: uint32(g.Params)}},
		DispatcherGenesis: &dispatchertypes.GenesisState{},
		ForwarderGenesis:  &forwardertypes.GenesisState{},
		ExecutorGenesis:   &executortypes.GenesisState{},
	}
	if g.Params < 0 {
		gs.AdapterGenesis.Params.MaxPassthroughPayloadSize = 4294967295
	}
	for _, p := range g.PP {
		gs.ForwarderGenesis.PausedProtocolIds = append(gs.ForwarderGenesis.PausedProtocolIds, protoByName[p])
	}
	for _, c := range g.PCC {
		gs.ForwarderGenesis.PausedCrossChainIds = append(gs.ForwarderGenesis.PausedCrossChainIds, ccid(c.P, c.Cp))
	}
	for _, a := range g.PA {
		gs.ExecutorGenesis.PausedActionIds = append(gs.ExecutorGenesis.PausedActionIds, actionByName[a])
	}
	for _, a := range g.Amts {
		gs.DispatcherGenesis.DispatchedAmounts = append(gs.DispatcherGenesis.DispatchedAmounts, dispatchertypes.DispatchedAmountEntry{
			SourceId: ccid(a.Sp, a.Sc), DestinationId: ccid(a.Dp, a.Dc), Denom: a.Denom,
			AmountDispatched: dispatchertypes.AmountDispatched{Incoming: statAmt(a.In), Outgoing: statAmt(a.Out)}})
	}
	for _, c := range g.Cnts {
		gs.DispatcherGenesis.DispatchedCounts = append(gs.DispatcherGenesis.DispatchedCounts, dispatchertypes.DispatchCountEntry{
			SourceId: ccid(c.Sp, c.Sc), DestinationId: ccid(c.Dp, c.Dc), Count: statCnt(c.N)})
	}
	x := map[string]any{}
	var bz []byte
	func() {
		defer func() {
			if rec := recover(); rec != nil {
				x["marshalPanic"] = fmt.Sprintf("%v", rec)
			}
		}()
		bz = w.cdc.MustMarshalJSON(&gs)
	}()
	if bz == nil {
		// a document that cannot even be serialised is not a genesis document
		x["validateOk"], x["initOk"], x["validateErr"], x["initErr"] = false, false, "unserialisable", ""
		ln.Res = Res{Ack: "err"}
		ln.Obs.X = x
		return
	}
	vOk, vErr, iOk, iErr := w.initOrbiter(bctx, bz)
	x["validateOk"], x["validateErr"], x["initOk"], x["initErr"] = vOk, vErr, iOk, iErr
	ln.Concrete = map[string]any{"genesis": string(bz)}
	ln.Res = Res{Ack: "ok"}
	if !iOk {
		ln.Res.Ack = "err"
		ln.Res.Text = iErr
	}
	ln.Obs.X = x
}

// statAmt / statCnt: the abstract value BIG (maxTLCInt) stands for the maximum of the stored type.
func statAmt(v int64) math.Int {
	if v == maxTLCInt {
		m, _ := math.NewIntFromString("115792089237316195423570985008687907853269984665640564039457584007913129639935")
		return m
	}
	return sdkInt(v)
}

func statCnt(v int64) uint64 {
	if v == maxTLCInt {
		return gomath.MaxUint64
	}
	return uint64(v)
}
