// parseobs.go — direct observations of the payload parser and of the public constructors
// (C15): acceptance, purity, and the marshal -> parse -> marshal round trip.
package main

import (
	"errors"
	"fmt"

	sdkmath "cosmossdk.io/math"
	sdk "github.com/cosmos/cosmos-sdk/types"
	"github.com/cosmos/gogoproto/proto"

	channeltypes "github.com/cosmos/ibc-go/v8/modules/core/04-channel/types"

	adapterctrl "github.com/noble-assets/orbiter/v2/controller/adapter"
	orbitertypes "github.com/noble-assets/orbiter/v2/types"
	adaptertypes "github.com/noble-assets/orbiter/v2/types/component/adapter"
	actiontypes "github.com/noble-assets/orbiter/v2/types/controller/action"
	forwardingtypes "github.com/noble-assets/orbiter/v2/types/controller/forwarding"
	"github.com/noble-assets/orbiter/v2/types/core"
)

var parseObs = false

type ParseObs struct {
	Ok   bool   `json:"ok"`
	Pure bool   `json:"pure"` // parsing the same memo again gives an equal result
	Hist bool   `json:"hist"` // the chain's long-lived adapter (which has seen the whole history) agrees with a fresh parser
	Err  string `json:"err"`
}

// appAdapterAccepts asks the app's own long-lived IBC adapter controller to parse the packet.
// ok = accepted as an orbiter payload; notOrbiter = classified "not an orbiter packet".
func (w *World) appAdapterAccepts(p channeltypes.Packet) (ok bool, notOrbiter bool, perr string) {
	ctrl, found := w.app.OrbiterKeeper.Adapter().Router().Route(core.PROTOCOL_IBC)
	if !found {
		panic(machineryError{"no IBC adapter controller"})
	}
	cc, err := adaptertypes.NewIBCCrossChainPacket(p.GetSourcePort(), p.GetSourceChannel(), p.GetData())
	must(err)
	defer func() {
		if r := recover(); r != nil {
			ok, perr = false, fmt.Sprintf("PANIC: %v", r)
		}
	}()
	_, err = ctrl.ParsePacket(cc)
	if err != nil {
		return false, errors.Is(err, core.ErrNoOrbiterPacket), err.Error()
	}
	return true, false, ""
}

type RoundTrip struct {
	Built          bool   `json:"built"` // the public constructors accepted the abstract payload
	BuildErr       string `json:"buildErr"`
	ParseOk        bool   `json:"parseOk"`
	Equal          bool   `json:"equal"`
	RemarshalEqual bool   `json:"remarshalEqual"`
	SameMemo       bool   `json:"sameMemo"` // the constructor-built memo parses to the same payload as the harness-built memo
}

func (w *World) parseTwice(memo string) ParseObs {
	p, err := adapterctrl.NewIBCParser(w.cdc)
	must(err)
	one := func() (pl *core.Payload, e error) {
		defer func() {
			if r := recover(); r != nil {
				e = fmt.Errorf("PANIC: %v", r)
			}
		}()
		return p.ParsePayload([]byte(memo))
	}
	p1, e1 := one()
	p2, e2 := one()
	o := ParseObs{Ok: e1 == nil}
	if e1 != nil {
		o.Err = e1.Error()
	}
	// equal results: both parses accept with equal payloads, or both refuse. (The TEXT of a refusal is
	// not compared: the JSON codec names an arbitrary one of several unknown fields; since fix ebf3465
	// no error text reaches committed state, and the determinism of what IS committed is C19's.)
	o.Pure = (e1 == nil) == (e2 == nil)
	if e1 == nil && e2 == nil {
		o.Pure = protoEq(p1, p2)
	}
	return o
}

// buildByConstructors builds the payload of a PAYLOAD input through the module's public
// constructors only (which validate); any refusal is reported, not judged.
func (w *World) buildByConstructors(in *Input) (*core.PayloadWrapper, error) {
	var fw *core.Forwarding
	var err error
	f := in.Fw
	switch {
	case f.Pid == "CCTP" && f.At == "CCTP":
		fw, err = forwardingtypes.NewCCTPForwarding(uint32(f.Dom), w.bytesOf(f.Mint), w.bytesOf(f.Caller), make([]byte, f.Pt))
	case f.Pid == "HYP" && f.At == "HYP":
		fw, err = forwardingtypes.NewHyperlaneForwarding(w.bytesOf(f.Tok), uint32(f.Dom), w.bytesOf(f.Rcp), w.bytesOf(f.Hook),
			metaString(f.Meta), sdkmath.NewInt(f.Gas), sdk.Coin{Denom: "uusdc", Amount: sdkmath.NewInt(f.MaxFee)}, make([]byte, f.Pt))
	case f.Pid == "INT" && f.At == "INT":
		fw, err = forwardingtypes.NewInternalForwarding(w.addrOf(f.To))
	default:
		return nil, fmt.Errorf("no constructor for %s/%s", f.Pid, f.At)
	}
	if err != nil {
		return nil, err
	}
	var acts []*core.Action
	for _, a := range in.Acts {
		if a.ID != "FEE" || a.At != "FEE" {
			return nil, fmt.Errorf("no constructor for action %s/%s", a.ID, a.At)
		}
		var infos []*actiontypes.FeeInfo
		for _, fe := range a.Fees {
			switch fe.K {
			case "bps":
				if fe.VC != "OK" {
					return nil, fmt.Errorf("no constructor for value class %s", fe.VC)
				}
				b, err := actiontypes.NewFeeBasisPoints(uint32(fe.V))
				if err != nil {
					return nil, err
				}
				fi, err := actiontypes.NewFeeInfo(w.addrOf(fe.To), b)
				if err != nil {
					return nil, err
				}
				infos = append(infos, fi)
			case "fix":
				am, err := actiontypes.NewFeeAmount(feeValueString(fe))
				if err != nil {
					return nil, err
				}
				fi, err := actiontypes.NewFeeInfo(w.addrOf(fe.To), am)
				if err != nil {
					return nil, err
				}
				infos = append(infos, fi)
			default:
				return nil, fmt.Errorf("no constructor for fee kind %s", fe.K)
			}
		}
		act, err := actiontypes.NewFeeAction(infos...)
		if err != nil {
			return nil, err
		}
		acts = append(acts, act)
	}
	return core.NewPayloadWrapper(fw, acts...)
}

func (w *World) roundTrip(in *Input, harnessMemo string) RoundTrip {
	rt := RoundTrip{}
	if in.Mk != "PAYLOAD" {
		return rt
	}
	var pw *core.PayloadWrapper
	var err error
	func() {
		defer func() {
			if r := recover(); r != nil {
				err = fmt.Errorf("PANIC: %v", r)
			}
		}()
		pw, err = w.buildByConstructors(in)
	}()
	if err != nil {
		rt.BuildErr = err.Error()
		return rt
	}
	rt.Built = true
	bz, err := orbitertypes.MarshalJSON(w.cdc, pw)
	if err != nil {
		rt.BuildErr = "marshal: " + err.Error()
		return rt
	}
	p, err := adapterctrl.NewIBCParser(w.cdc)
	must(err)
	back, err := p.ParsePayload(bz)
	if err != nil {
		rt.BuildErr = "parse: " + err.Error()
		return rt
	}
	rt.ParseOk = true
	rt.Equal = protoEq(back, pw.Orbiter)
	// cached attribute values must be equal too
	if rt.Equal {
		a1, e1 := back.Forwarding.CachedAttributes()
		a2, e2 := pw.Orbiter.Forwarding.CachedAttributes()
		rt.Equal = e1 == nil && e2 == nil && protoEq(a1.(proto.Message), a2.(proto.Message))
	}
	bz2, err := orbitertypes.MarshalJSON(w.cdc, &core.PayloadWrapper{Orbiter: back})
	rt.RemarshalEqual = err == nil && string(bz) == string(bz2)
	if h, err := p.ParsePayload([]byte(harnessMemo)); err == nil {
		rt.SameMemo = protoEq(h, back)
	}
	return rt
}

// protoEq compares two messages by their deterministic binary encoding (gogoproto's
// proto.Equal cannot look inside Any values with cached interfaces).
func protoEq(a, b proto.Message) bool {
	if a == nil || b == nil {
		return a == nil && b == nil
	}
	x, e1 := proto.Marshal(a)
	y, e2 := proto.Marshal(b)
	return e1 == nil && e2 == nil && string(x) == string(y)
}
