// grids.go — pure-decision grids (identifiers, genesis documents, parser) — see DESIGN.md §7.
package main

func cmdIdent(args []string)  { panic(machineryError{"not built yet"}) }
func cmdGendoc(args []string) { panic(machineryError{"not built yet"}) }
func cmdParse(args []string)  { panic(machineryError{"not built yet"}) }
func cmdRpcs(args []string)   { panic(machineryError{"not built yet"}) }
