// project.go — projection of the chain state to the abstract state of spec/Orbiter.tla
// (DESIGN.md §4.5). Pure observation; no expected values.
package main

import (
	"crypto/sha256"
	"fmt"
	"sort"
	"strings"

	"cosmossdk.io/math"
	storetypes "cosmossdk.io/store/types"
	sdk "github.com/cosmos/cosmos-sdk/types"

	"github.com/noble-assets/orbiter/v2/types/core"
)

const maxTLCInt = 2147483647

type AmtEntry struct {
	Sp    string `json:"sp"`
	Sc    string `json:"sc"`
	Dp    string `json:"dp"`
	Dc    string `json:"dc"`
	Denom string `json:"denom"`
	In    int64  `json:"in"`
	Out   int64  `json:"out"`
}

type CntEntry struct {
	Sp string `json:"sp"`
	Sc string `json:"sc"`
	Dp string `json:"dp"`
	Dc string `json:"dc"`
	N  int64  `json:"n"`
}

type Env struct {
	FtfPaused  bool     `json:"ftfPaused"`
	Blocked    []string `json:"blocked"`
	CctpPaused bool     `json:"cctpPaused"`
}

type St struct {
	Bal       map[string]map[string]int64 `json:"bal"`
	Supply    map[string]int64            `json:"supply"`
	PProto    []string                    `json:"pProto"`
	PCC       [][]string                  `json:"pCC"`
	PAct      []string                    `json:"pAct"`
	MaxPT     int64                       `json:"maxPT"`
	HasParams bool                        `json:"hasParams"`
	Amt       []AmtEntry                  `json:"amt"`
	Cnt       []CntEntry                  `json:"cnt"`
	Env       Env                         `json:"env"`
}

type DenomAmt struct {
	D string `json:"d"`
	A int64  `json:"a"`
}

func protoName(p core.ProtocolID) string {
	switch p {
	case core.PROTOCOL_UNSUPPORTED:
		return "UNSUPPORTED"
	case core.PROTOCOL_IBC:
		return "IBC"
	case core.PROTOCOL_CCTP:
		return "CCTP"
	case core.PROTOCOL_HYPERLANE:
		return "HYP"
	case core.PROTOCOL_INTERNAL:
		return "INT"
	}
	return fmt.Sprintf("P%d", int32(p))
}

func actionName(a core.ActionID) string {
	switch a {
	case core.ACTION_UNSUPPORTED:
		return "UNSUPPORTED"
	case core.ACTION_FEE:
		return "FEE"
	case core.ACTION_SWAP:
		return "SWAP"
	}
	return fmt.Sprintf("A%d", int32(a))
}

// toInt converts a math.Int for TLC; values beyond TLC's 32-bit range are a machinery error
// (DESIGN.md §8), never silently wrapped.
func toInt(i math.Int, what string) int64 {
	if i.IsNil() {
		return 0
	}
	if !i.IsInt64() || i.Int64() > maxTLCInt || i.Int64() < -maxTLCInt {
		panic(machineryError{fmt.Sprintf("integer outside TLC range in %s: %s", what, i.String())})
	}
	return i.Int64()
}

type machineryError struct{ msg string }

func (m machineryError) Error() string { return m.msg }

// abstractDenom maps a bank denom to the abstract ledger's denom ("ibc" = any voucher).
func abstractDenom(d string) (string, bool) {
	switch d {
	case "uusdc", "ustake", "uswap":
		return d, true
	}
	if strings.HasPrefix(d, "ibc/") {
		return "ibc", true
	}
	return "", false
}

func (w *World) project(ctx sdk.Context) St {
	st := St{Bal: map[string]map[string]int64{}, Supply: map[string]int64{},
		PProto: []string{}, PCC: [][]string{}, PAct: []string{}, Amt: []AmtEntry{}, Cnt: []CntEntry{}}
	for _, a := range w.tracked {
		st.Bal[a] = map[string]int64{}
		for _, d := range trackedDenoms {
			st.Bal[a][d] = 0
		}
		for _, c := range w.app.BankKeeper.GetAllBalances(ctx, w.acct[a]) {
			if d, ok := abstractDenom(c.Denom); ok {
				st.Bal[a][d] += clampTracked(c.Amount)
			}
		}
	}
	for _, d := range trackedDenoms {
		st.Supply[d] = 0
	}
	w.app.BankKeeper.IterateTotalSupply(ctx, func(c sdk.Coin) bool {
		if d, ok := abstractDenom(c.Denom); ok {
			st.Supply[d] += clampTracked(c.Amount)
		}
		return false
	})

	g := w.app.OrbiterKeeper.ExportGenesis(ctx)
	for _, p := range g.ForwarderGenesis.PausedProtocolIds {
		st.PProto = append(st.PProto, protoName(p))
	}
	for _, c := range g.ForwarderGenesis.PausedCrossChainIds {
		st.PCC = append(st.PCC, []string{protoName(c.ProtocolId), c.CounterpartyId})
	}
	for _, a := range g.ExecutorGenesis.PausedActionIds {
		st.PAct = append(st.PAct, actionName(a))
	}
	p, err := w.app.OrbiterKeeper.Adapter().GetParams(ctx)
	st.HasParams = err == nil
	st.MaxPT = int64(p.MaxPassthroughPayloadSize)
	if st.MaxPT > maxTLCInt {
		st.MaxPT = maxTLCInt // the only capped value: U32MAX is an abstract "BIG" (DESIGN.md §8)
	}
	for _, a := range g.DispatcherGenesis.DispatchedAmounts {
		st.Amt = append(st.Amt, AmtEntry{
			Sp: protoName(a.SourceId.ProtocolId), Sc: a.SourceId.CounterpartyId,
			Dp: protoName(a.DestinationId.ProtocolId), Dc: a.DestinationId.CounterpartyId,
			Denom: a.Denom,
			In:    capInt(a.AmountDispatched.Incoming), Out: capInt(a.AmountDispatched.Outgoing),
		})
	}
	for _, c := range g.DispatcherGenesis.DispatchedCounts {
		n := int64(maxTLCInt) // counts beyond TLC's range are the abstract value BIG
		if c.Count < maxTLCInt {
			n = int64(c.Count)
		}
		st.Cnt = append(st.Cnt, CntEntry{
			Sp: protoName(c.SourceId.ProtocolId), Sc: c.SourceId.CounterpartyId,
			Dp: protoName(c.DestinationId.ProtocolId), Dc: c.DestinationId.CounterpartyId,
			N: n,
		})
	}

	st.Env.FtfPaused = w.app.FTFKeeper.GetPaused(ctx).Paused
	st.Env.Blocked = []string{}
	for _, a := range w.tracked {
		if _, found := w.app.FTFKeeper.GetBlacklisted(ctx, w.acct[a].Bytes()); found {
			st.Env.Blocked = append(st.Env.Blocked, a)
		}
	}
	cp, _ := w.app.CCTPKeeper.GetBurningAndMintingPaused(ctx)
	st.Env.CctpPaused = cp.Paused
	return st
}

// clampTracked converts a tracked balance / supply. Values of the test-bed stay below 10^7; a larger
// one can only appear when the code under test misbehaves (e.g. credits a 2^256-1 voucher it should
// have refused). It is clamped to 10^8 so that the specification's sums stay within TLC's integers:
// every comparison with an expected value then fails, as it should, instead of aborting the run.
func clampTracked(i math.Int) int64 {
	const lim = 100_000_000
	if i.IsNil() {
		return 0
	}
	if !i.IsInt64() || i.Int64() > lim {
		return lim
	}
	return i.Int64()
}

// capInt converts an amount that is only compared for "larger than before / positive" (never used
// in arithmetic by the specification); values beyond TLC's range are capped.
func capInt(i math.Int) int64 {
	if i.IsNil() {
		return 0
	}
	if !i.IsInt64() || i.Int64() > maxTLCInt {
		return maxTLCInt
	}
	return i.Int64()
}

// digitsOf renders a non-negative amount as decimal digits (exact, for the BigNat arithmetic).
func digitsOf(i math.Int) []int64 {
	out := []int64{}
	for _, ch := range i.String() {
		if ch >= '0' && ch <= '9' {
			out = append(out, int64(ch-'0'))
		}
	}
	return out
}

// orbAll returns every balance of the orbiter account (all denoms, incl. vouchers).
func (w *World) orbAll(ctx sdk.Context) []DenomAmt {
	out := []DenomAmt{}
	for _, c := range w.app.BankKeeper.GetAllBalances(ctx, w.acct["orb"]) {
		out = append(out, DenomAmt{D: c.Denom, A: capInt(c.Amount)})
	}
	return out
}

// othersDigest hashes every balance that is outside the tracked accounts x tracked denoms grid
// and outside the orbiter account (which is logged in full by orbAll), so that "no other
// account changed" is observable.
func (w *World) othersDigest(ctx sdk.Context) string {
	isTracked := map[string]bool{}
	for _, a := range w.tracked {
		isTracked[w.acct[a].String()] = true
	}
	orb := w.acct["orb"].String()
	var lines []string
	w.app.BankKeeper.IterateAllBalances(ctx, func(addr sdk.AccAddress, c sdk.Coin) bool {
		s := addr.String()
		if s == orb {
			return false
		}
		if _, ok := abstractDenom(c.Denom); ok && isTracked[s] {
			return false
		}
		lines = append(lines, s+"|"+c.String())
		return false
	})
	sort.Strings(lines)
	h := sha256.New()
	for _, l := range lines {
		h.Write([]byte(l))
		h.Write([]byte{0})
	}
	return fmt.Sprintf("%x", h.Sum(nil))[:16]
}

// storeDigest hashes every key/value of every KV store (C07, C19).
func (w *World) storeDigest(ctx sdk.Context) string {
	h := sha256.New()
	keys := w.app.GetStoreKeys()
	sort.Slice(keys, func(i, j int) bool { return keys[i].Name() < keys[j].Name() })
	for _, k := range keys {
		if _, ok := k.(interface{ String() string }); !ok {
			continue
		}
		// only committed (consensus) stores: memory and transient stores are process-local
		if _, ok := k.(*storetypes.KVStoreKey); !ok {
			continue
		}
		func() {
			defer func() { _ = recover() }()
			st := ctx.MultiStore().GetKVStore(k)
			it := st.Iterator(nil, nil)
			defer it.Close()
			h.Write([]byte(k.Name()))
			for ; it.Valid(); it.Next() {
				h.Write(it.Key())
				h.Write([]byte{0})
				h.Write(it.Value())
				h.Write([]byte{1})
			}
		}()
	}
	return fmt.Sprintf("%x", h.Sum(nil))[:24]
}
