// queries.go — the module's gRPC query services, reached through the app's registered query
// router (so service registration is covered too). Pure observation.
package main

import (
	"fmt"
	"sort"
	"strings"

	abci "github.com/cometbft/cometbft/abci/types"
	sdk "github.com/cosmos/cosmos-sdk/types"
	"github.com/cosmos/cosmos-sdk/types/query"
	"github.com/cosmos/gogoproto/proto"

	adaptertypes "github.com/noble-assets/orbiter/v2/types/component/adapter"
	dispatchertypes "github.com/noble-assets/orbiter/v2/types/component/dispatcher"
	executortypes "github.com/noble-assets/orbiter/v2/types/component/executor"
	forwardertypes "github.com/noble-assets/orbiter/v2/types/component/forwarder"
)

// grpcQuery calls a registered query handler. A missing route is a machinery error.
func (w *World) grpcQuery(ctx sdk.Context, path string, req, resp proto.Message) (err error) {
	h := w.app.GRPCQueryRouter().Route(path)
	if h == nil {
		panic(machineryError{"no query route " + path})
	}
	bz, e := proto.Marshal(req)
	must(e)
	defer func() {
		if r := recover(); r != nil {
			if me, ok := r.(machineryError); ok {
				panic(me)
			}
			err = fmt.Errorf("PANIC: %v", r)
		}
	}()
	qctx, _ := ctx.CacheContext()
	res, e := h(qctx, &abci.RequestQuery{Data: bz, Path: path})
	if e != nil {
		return e
	}
	return proto.Unmarshal(res.Value, resp)
}

type isProtoRec struct {
	P  string `json:"p"`
	Ok bool   `json:"ok"` // query succeeded
	V  bool   `json:"v"`
}
type isCCRec struct {
	P  string `json:"p"`
	C  string `json:"c"`
	Ok bool   `json:"ok"`
	V  bool   `json:"v"`
}
type qCCRec struct {
	P   string   `json:"p"`
	Ok  bool     `json:"ok"`
	Cps []string `json:"cps"`
	Dup bool     `json:"dup"` // a counterparty was returned on more than one page
}

var cpUniverse = map[string][]string{
	"CCTP": {"0", "1", "2"}, "HYP": {"1", "2", "3"}, "INT": {"noble"}, "IBC": {"channel-0", chan1ID},
}

// pauseQueries asks every pause / parameter query and returns the answers in abstract form.
func (r *Runner) pauseQueries(ctx sdk.Context) map[string]any {
	w := r.w
	out := map[string]any{}

	var pp forwardertypes.QueryPausedProtocolsResponse
	qProto := []string{}
	if err := w.grpcQuery(ctx, "/noble.orbiter.component.forwarder.v1.Query/PausedProtocols", &forwardertypes.QueryPausedProtocolsRequest{}, &pp); err == nil {
		for _, p := range pp.ProtocolIds {
			qProto = append(qProto, protoName(p))
		}
	} else {
		qProto = append(qProto, "ERROR")
	}
	out["qProto"] = qProto

	st := w.project(ctx)
	cps := map[string]map[string]bool{}
	for p, l := range cpUniverse {
		cps[p] = map[string]bool{}
		for _, c := range l {
			cps[p][c] = true
		}
	}
	for _, pc := range st.PCC {
		if cps[pc[0]] == nil {
			cps[pc[0]] = map[string]bool{}
		}
		cps[pc[0]][pc[1]] = true
	}

	isProto := []isProtoRec{}
	isCC := []isCCRec{}
	qCC := []qCCRec{}
	for _, p := range []string{"IBC", "CCTP", "HYP", "INT"} {
		var ip forwardertypes.QueryIsProtocolPausedResponse
		err := w.grpcQuery(ctx, "/noble.orbiter.component.forwarder.v1.Query/IsProtocolPaused", &forwardertypes.QueryIsProtocolPausedRequest{ProtocolId: pidName[p]}, &ip)
		isProto = append(isProto, isProtoRec{P: p, Ok: err == nil, V: ip.IsPaused})

		keys := []string{}
		for c := range cps[p] {
			keys = append(keys, c)
		}
		sort.Strings(keys)
		for _, c := range keys {
			var ic forwardertypes.QueryIsCrossChainPausedResponse
			err := w.grpcQuery(ctx, "/noble.orbiter.component.forwarder.v1.Query/IsCrossChainPaused", &forwardertypes.QueryIsCrossChainPausedRequest{ProtocolId: pidName[p], CounterpartyId: c}, &ic)
			isCC = append(isCC, isCCRec{P: p, C: c, Ok: err == nil, V: ic.IsPaused})
		}

		// walk all pages with a small limit, following next_key
		rec := qCCRec{P: p, Ok: true, Cps: []string{}}
		seen := map[string]bool{}
		var key []byte
		for page := 0; page < 200; page++ {
			var pc forwardertypes.QueryPausedCrossChainsResponse
			err := w.grpcQuery(ctx, "/noble.orbiter.component.forwarder.v1.Query/PausedCrossChains",
				&forwardertypes.QueryPausedCrossChainsRequest{ProtocolId: pidName[p], Pagination: &query.PageRequest{Key: key, Limit: 2}}, &pc)
			if err != nil {
				rec.Ok = false
				break
			}
			for _, c := range pc.CounterpartyIds {
				if seen[c] {
					rec.Dup = true
				}
				seen[c] = true
				rec.Cps = append(rec.Cps, c)
			}
			if pc.Pagination == nil || len(pc.Pagination.NextKey) == 0 {
				break
			}
			key = pc.Pagination.NextKey
		}
		qCC = append(qCC, rec)
	}
	out["isProto"] = isProto
	out["isCC"] = isCC
	out["qCC"] = qCC

	var pa executortypes.QueryPausedActionsResponse
	qAct := []string{}
	if err := w.grpcQuery(ctx, "/noble.orbiter.component.executor.v1.Query/PausedActions", &executortypes.QueryPausedActionsRequest{}, &pa); err == nil {
		for _, a := range pa.ActionIds {
			qAct = append(qAct, actionName(a))
		}
	} else {
		qAct = append(qAct, "ERROR")
	}
	out["qAct"] = qAct
	isAct := []isProtoRec{}
	for _, a := range []string{"FEE", "SWAP"} {
		var ia executortypes.QueryIsActionPausedResponse
		err := w.grpcQuery(ctx, "/noble.orbiter.component.executor.v1.Query/IsActionPaused", &executortypes.QueryIsActionPausedRequest{ActionId: aidName[a]}, &ia)
		isAct = append(isAct, isProtoRec{P: a, Ok: err == nil, V: ia.IsPaused})
	}
	out["isAct"] = isAct

	var pr adaptertypes.QueryParamsResponse
	if err := w.grpcQuery(ctx, "/noble.orbiter.component.adapter.v1.Query/Params", &adaptertypes.QueryParamsRequest{}, &pr); err == nil {
		v := int64(pr.Params.MaxPassthroughPayloadSize)
		if v > maxTLCInt {
			v = maxTLCInt
		}
		out["qParams"] = v
		out["qParamsOk"] = true
	} else {
		out["qParams"] = int64(0)
		out["qParamsOk"] = false
	}
	return out
}

// ---- statistics queries (C13) ----------------------------------------------------------------

type PageObs struct {
	Items   []AmtEntry `json:"items"` // for count queries In carries the count, Out = 0, Denom = ""
	HasNext bool       `json:"hasNext"`
	Total   int64      `json:"total"`
	Err     bool       `json:"err"`
}

func amtEntryOf(e *dispatchertypes.DispatchedAmountEntry) AmtEntry {
	return AmtEntry{Sp: protoName(e.SourceId.ProtocolId), Sc: e.SourceId.CounterpartyId,
		Dp: protoName(e.DestinationId.ProtocolId), Dc: e.DestinationId.CounterpartyId, Denom: e.Denom,
		In: capInt(e.AmountDispatched.Incoming), Out: capInt(e.AmountDispatched.Outgoing)}
}

func cntEntryOf(e *dispatchertypes.DispatchCountEntry) AmtEntry {
	return AmtEntry{Sp: protoName(e.SourceId.ProtocolId), Sc: e.SourceId.CounterpartyId,
		Dp: protoName(e.DestinationId.ProtocolId), Dc: e.DestinationId.CounterpartyId, Denom: "", In: int64(e.Count), Out: 0}
}

// doQuery runs one statistics query *walk* (all pages) or one direct lookup, as described by
// in.Q: {"kind":"amounts"|"counts", "by":"src"|"dst"|"direct", "pid":.., "limit":n,
// "walk":"key"|"offset", "reverse":bool, "countTotal":bool, "sp","sc","dp","dc","denom"}.
func (r *Runner) doQuery(ctx sdk.Context, ln *Line) {
	w := r.w
	q := ln.In.Q
	gs := func(k string) string {
		return map[string]string{"kind": q.Kind, "by": q.By, "pid": q.Pid, "walk": q.Walk, "sp": q.Sp, "sc": q.Sc, "dp": q.Dp, "dc": q.Dc, "denom": q.Denom}[k]
	}
	gi := func(k string) int64 { return q.Limit }
	gb := func(k string) bool {
		if k == "reverse" {
			return q.Reverse
		}
		return q.CountTotal
	}
	kind, by := gs("kind"), gs("by")
	pages := []PageObs{}
	defer func() {
		if ln.Obs.X != nil {
			ln.Obs.X["prefixRelated"] = r.prefixRelated(ctx, kind)
		}
	}()
	ln.Res = Res{Ack: "ok"}

	svc := "/noble.orbiter.component.dispatcher.v1.Query/"
	pn := func(p string) string {
		if n, ok := pidName[p]; ok {
			return n
		}
		return strings.TrimPrefix(p, "L:")
	}
	if by == "direct" {
		po := PageObs{Items: []AmtEntry{}}
		if kind == "amounts" {
			var resp dispatchertypes.QueryDispatchedAmountsResponse
			err := w.grpcQuery(ctx, svc+"DispatchedAmounts", &dispatchertypes.QueryDispatchedAmountsRequest{
				SourceProtocolId: pn(gs("sp")), SourceCounterpartyId: gs("sc"),
				DestinationProtocolId: pn(gs("dp")), DestinationCounterpartyId: gs("dc"), Denom: gs("denom")}, &resp)
			po.Err = err != nil
			for _, e := range resp.Amounts {
				po.Items = append(po.Items, amtEntryOf(e))
			}
		} else {
			var resp dispatchertypes.QueryDispatchedCountsResponse
			err := w.grpcQuery(ctx, svc+"DispatchedCounts", &dispatchertypes.QueryDispatchedCountsRequest{
				SourceProtocolId: pn(gs("sp")), SourceCounterpartyId: gs("sc"),
				DestinationProtocolId: pn(gs("dp")), DestinationCounterpartyId: gs("dc")}, &resp)
			po.Err = err != nil
			for _, e := range resp.Counts {
				po.Items = append(po.Items, cntEntryOf(e))
			}
		}
		pages = append(pages, po)
		ln.Obs.X = map[string]any{"pages": pages}
		return
	}

	method := map[string]string{
		"amounts/src": "DispatchedAmountsBySourceProtocolID", "amounts/dst": "DispatchedAmountsByDestinationProtocolID",
		"counts/src": "DispatchedCountsBySourceProtocolID", "counts/dst": "DispatchedCountsByDestinationProtocolID",
	}[kind+"/"+by]
	limit := uint64(gi("limit"))
	var key []byte
	offset := uint64(0)
	for page := 0; page < 500; page++ {
		pr := &query.PageRequest{Limit: limit, Reverse: gb("reverse"), CountTotal: gb("countTotal")}
		if gs("walk") == "nopage" && page == 0 {
			pr = nil // a request without a pagination block: the SDK applies its default page
		} else if gs("walk") == "nopage" {
			pr = &query.PageRequest{Key: key}
		} else if gs("walk") == "offset" {
			pr.Offset = offset
		} else {
			pr.Key = key
			if page > 0 {
				pr.CountTotal = false
			}
		}
		po := PageObs{Items: []AmtEntry{}}
		var next []byte
		if kind == "amounts" {
			var resp dispatchertypes.QueryDispatchedAmountsResponse
			err := w.grpcQuery(ctx, svc+method, &dispatchertypes.QueryDispatchedAmountsByProtocolIDRequest{ProtocolId: pn(gs("pid")), Pagination: pr}, &resp)
			po.Err = err != nil
			for _, e := range resp.Amounts {
				po.Items = append(po.Items, amtEntryOf(e))
			}
			if resp.Pagination != nil {
				next = resp.Pagination.NextKey
				po.Total = int64(resp.Pagination.Total)
			}
		} else {
			var resp dispatchertypes.QueryDispatchedCountsResponse
			err := w.grpcQuery(ctx, svc+method, &dispatchertypes.QueryDispatchedCountsByProtocolIDRequest{ProtocolId: pn(gs("pid")), Pagination: pr}, &resp)
			po.Err = err != nil
			for _, e := range resp.Counts {
				po.Items = append(po.Items, cntEntryOf(e))
			}
			if resp.Pagination != nil {
				next = resp.Pagination.NextKey
				po.Total = int64(resp.Pagination.Total)
			}
		}
		po.HasNext = len(next) != 0
		pages = append(pages, po)
		if po.Err || len(next) == 0 {
			break
		}
		key = next
		if limit == 0 {
			offset += 100
		}
		offset += limit
	}
	ln.Obs.X = map[string]any{"pages": pages}
}

// prefixRelated reports (pure projection of the ledger) whether two entries of the given kind
// share all key components but the last, and the last component of one is a proper string
// prefix of the other's (e.g. counterparties "10" and "100"). Used only to identify the known
// finding about reverse key-based walks precisely (KNOWN_FINDINGS.json).
func (r *Runner) prefixRelated(ctx sdk.Context, kind string) bool {
	st := r.w.project(ctx)
	type kv struct{ head, last string }
	var ks []kv
	if kind == "amounts" {
		for _, e := range st.Amt {
			ks = append(ks, kv{e.Sp + "|" + e.Sc + "|" + e.Dp + "|" + e.Dc, e.Denom})
		}
	} else {
		for _, e := range st.Cnt {
			ks = append(ks, kv{e.Sp + "|" + e.Sc + "|" + e.Dp, e.Dc})
		}
	}
	for i := range ks {
		for j := range ks {
			if i != j && ks[i].head == ks[j].head && ks[i].last != ks[j].last && strings.HasPrefix(ks[j].last, ks[i].last) {
				return true
			}
		}
	}
	return false
}
