// genesis.go — export / validate / re-initialise (C17). The module's own AppModule entry points
// are used (ExportGenesis, ValidateGenesis, InitGenesis); the harness only clears the module's
// store in between ("fresh chain") and, optionally, boots a complete second chain.
package main

import (
	"encoding/json"
	"fmt"

	storetypes "cosmossdk.io/store/types"
	sdk "github.com/cosmos/cosmos-sdk/types"
	"github.com/cosmos/cosmos-sdk/types/module"

	"github.com/noble-assets/orbiter/v2/types/core"
)

var fullReimport = false

func (w *World) orbiterModule() (module.HasGenesis, module.HasGenesisBasics) {
	m := w.app.ModuleManager.Modules[core.ModuleName]
	hg, ok := m.(module.HasGenesis)
	if !ok {
		panic(machineryError{"orbiter module has no genesis"})
	}
	hb, ok := m.(module.HasGenesisBasics)
	if !ok {
		panic(machineryError{"orbiter module has no genesis basics"})
	}
	return hg, hb
}

func (w *World) clearOrbiterStore(ctx sdk.Context) {
	st := ctx.MultiStore().GetKVStore(w.app.GetKey(core.ModuleName))
	var keys [][]byte
	it := st.Iterator(nil, nil)
	for ; it.Valid(); it.Next() {
		keys = append(keys, append([]byte{}, it.Key()...))
	}
	it.Close()
	for _, k := range keys {
		st.Delete(k)
	}
}

// initOrbiter validates and initialises the orbiter module from bz on a cleared store, inside a
// branch that is written back only when initialisation succeeds.
func (w *World) initOrbiter(ctx sdk.Context, bz json.RawMessage) (validateOk bool, validateErr string, initOk bool, initErr string) {
	hg, hb := w.orbiterModule()
	func() {
		defer func() {
			if r := recover(); r != nil {
				validateErr = fmt.Sprintf("PANIC: %v", r)
			}
		}()
		if err := hb.ValidateGenesis(w.cdc, nil, bz); err != nil {
			validateErr = err.Error()
			return
		}
		validateOk = true
	}()
	if !validateOk {
		// a chain does not start from a genesis that validation refuses
		return
	}
	cctx, write := ctx.CacheContext()
	w.clearOrbiterStore(cctx)
	func() {
		defer func() {
			if r := recover(); r != nil {
				initErr = fmt.Sprintf("PANIC: %v", r)
			}
		}()
		hg.InitGenesis(cctx, w.cdc, bz)
		initOk = true
	}()
	if initOk {
		write()
	}
	return
}

// reimportProbes are transfers run on throw-away branches before and after the re-initialisation:
// "the re-initialised chain behaves identically" is observed directly, not only through the export.
func reimportProbes() []Input {
	defFw := Fw{Pid: "INT", At: "INT", Mint: "NONE", Caller: "NONE", Tok: "NONE", Rcp: "NONE", Hook: "NONE", Mfd: "uusdc", Meta: "NONE", To: "U"}
	x := func(fw Fw, acts []Act) Input {
		in := Input{T: "recv", Chan: 0, Rcv: "ORB", Dn: "RET", Base: "uusdc", Amt: 1000, AmtC: "OK", Mk: "PAYLOAD", Fw: fw, Acts: acts}
		in.normalise()
		return in
	}
	pt := func(n int64) Fw { f := defFw; f.Pt = n; return f }
	cctp := func(d int64) Fw { f := defFw; f.Pid, f.At, f.Dom, f.Mint, f.To = "CCTP", "CCTP", d, "MINT_A", "NONE"; return f }
	hyp := func(d int64) Fw { f := defFw; f.Pid, f.At, f.Dom, f.Tok, f.Rcp, f.To = "HYP", "HYP", d, "T1", "R_A", "NONE"; return f }
	fee := []Act{{ID: "FEE", At: "FEE", Fees: []Fee{{K: "bps", V: 100, VC: "OK", To: "F1"}}}}
	return []Input{x(defFw, nil), x(defFw, fee), x(pt(1), nil), x(pt(2), nil), x(pt(3), nil), x(pt(64), nil), x(pt(65), nil),
		x(cctp(0), nil), x(cctp(1), nil), x(hyp(1), nil), x(hyp(2), nil)}
}

// probeOutcomes runs every probe on its own discarded branch of ctx and digests what it did.
func (r *Runner) probeOutcomes(ctx sdk.Context) []string {
	out := []string{}
	for _, in := range reimportProbes() {
		in := in
		c, _ := ctx.CacheContext()
		p, _ := r.packet(&in)
		res, _ := r.recvOn(c, r.mod, p)
		post, _ := json.Marshal(r.w.project(c))
		out = append(out, res.Ack+"|"+string(post))
	}
	return out
}

// reimport = export -> validate -> init on a cleared module store -> export again.
func (r *Runner) reimport(ctx sdk.Context) map[string]any {
	w := r.w
	hg, _ := w.orbiterModule()
	x := map[string]any{}
	before := r.probeOutcomes(ctx)
	defer func() {
		after := r.probeOutcomes(ctx)
		same, diff := true, []int{}
		for i := range before {
			if before[i] != after[i] {
				same = false
				diff = append(diff, i)
			}
		}
		x["sameBeh"] = same
		if !same {
			x["behDiff"] = diff
			x["behBefore"], x["behAfter"] = before[diff[0]], after[diff[0]]
		}
	}()
	var export1 json.RawMessage
	func() {
		defer func() {
			if rec := recover(); rec != nil {
				x["exportPanic"] = fmt.Sprintf("%v", rec)
			}
		}()
		export1 = hg.ExportGenesis(ctx, w.cdc)
	}()
	if export1 == nil {
		x["exportOk"], x["validateOk"], x["initOk"], x["sameExport"], x["fullOk"] = false, false, false, false, false
		return x
	}
	x["exportOk"] = true
	vOk, vErr, iOk, iErr := w.initOrbiter(ctx, export1)
	x["validateOk"], x["validateErr"], x["initOk"], x["initErr"] = vOk, vErr, iOk, iErr
	x["sameExport"] = false
	if iOk {
		export2 := hg.ExportGenesis(ctx, w.cdc)
		x["sameExport"] = string(export1) == string(export2)
		if string(export1) != string(export2) {
			x["export1"], x["export2"] = string(export1), string(export2)
		}
	}
	x["fullOk"] = true
	if fullReimport {
		// boot a complete second chain whose orbiter genesis is the exported one
		w2, err := NewWorld(export1)
		if err != nil {
			x["fullOk"] = false
			x["fullErr"] = err.Error()
		} else {
			hg2, _ := w2.orbiterModule()
			export3 := hg2.ExportGenesis(w2.base, w2.cdc)
			if string(export3) != string(export1) {
				x["fullOk"] = false
				x["fullErr"] = "re-export differs"
				x["export3"] = string(export3)
			}
		}
	}
	return x
}

var _ storetypes.KVStore
