// exec.go — executes abstract inputs against the real code under the commit discipline of
// ibc-go's RecvPacket / baseapp's runTx (DESIGN.md §5.2) and records what happened.
package main

import (
	"cosmossdk.io/math"
	"encoding/hex"
	"fmt"
	"os"
	"runtime/debug"
	"strconv"
	"strings"
	"time"

	abci "github.com/cometbft/cometbft/abci/types"
	sdk "github.com/cosmos/cosmos-sdk/types"
	banktypes "github.com/cosmos/cosmos-sdk/x/bank/types"
	transfertypes "github.com/cosmos/ibc-go/v8/modules/apps/transfer/types"
	clienttypes "github.com/cosmos/ibc-go/v8/modules/core/02-client/types"
	channeltypes "github.com/cosmos/ibc-go/v8/modules/core/04-channel/types"
	porttypes "github.com/cosmos/ibc-go/v8/modules/core/05-port/types"
	ibcexported "github.com/cosmos/ibc-go/v8/modules/core/exported"
	"github.com/ethereum/go-ethereum/crypto"

	warptypes "github.com/bcp-innovations/hyperlane-cosmos/x/warp/types"
	cctptypes "github.com/circlefin/noble-cctp/x/cctp/types"
	ftftypes "github.com/circlefin/noble-fiattokenfactory/x/fiattokenfactory/types"

	adaptertypes "github.com/noble-assets/orbiter/v2/types/component/adapter"
	executortypes "github.com/noble-assets/orbiter/v2/types/component/executor"
	forwardertypes "github.com/noble-assets/orbiter/v2/types/component/forwarder"
	"github.com/noble-assets/orbiter/v2/types/core"
)

type Res struct {
	Ack   string `json:"ack"` // recv: "ok" | "err" | "nil" | "panic"; admin: "ok" | "err" | "panic"
	Text  string `json:"text"`
	Panic string `json:"panic,omitempty"`
	// Detail is diagnostic only (ICS-20's own error text, which ibc-go redacts in the
	// acknowledgement and reports in an event); it is not part of the acknowledgement.
	Detail string `json:"detail,omitempty"`
}

// Req is one request that reached a bridge (or the bank, for the internal route).
type Req struct {
	Route      string `json:"route"` // "CCTP" | "HYP" | "INT" | "CCTP_REPLACE"
	WithCaller bool   `json:"withCaller"`
	From       string `json:"from"`
	Amt        int64  `json:"amt"`
	Denom      string `json:"denom"`
	Dom        int64  `json:"dom"`
	Mint       string `json:"mint"`
	Caller     string `json:"caller"`
	Tok        string `json:"tok"`
	Rcp        string `json:"rcp"`
	Hook       string `json:"hook"`
	Gas        int64  `json:"gas"`
	MaxFee     int64  `json:"maxfee"`
	Mfd        string `json:"mfd"`
	Meta       string `json:"meta"`
	To         string `json:"to"`
	Full       bool   `json:"full"` // true when every field was observed (instrumented mode)
}

type Xfer struct {
	From  string `json:"from"`
	To    string `json:"to"`
	Denom string `json:"denom"`
	Amt   int64  `json:"amt"`
}

type CtlOut struct {
	Run   bool   `json:"run"`
	Ack   string `json:"ack"`
	Post  *St    `json:"post,omitempty"`
	Req   []Req  `json:"req"`
	Xfers []Xfer `json:"xfers"`
}

type Obs struct {
	OrbPre     []DenomAmt        `json:"orbPre"`
	OrbPost    []DenomAmt        `json:"orbPost"`
	OthersPre  string            `json:"othersPre"`
	OthersPost string            `json:"othersPost"`
	Req        []Req             `json:"req"`
	Xfers      []Xfer            `json:"xfers"`
	Events     []string          `json:"events"`
	Ctl        map[string]CtlOut `json:"ctl"`
	Fired      []string          `json:"fired"`
	X          map[string]any    `json:"x,omitempty"` // input-kind specific observations
}

type Line struct {
	B        string         `json:"b"`
	I        int            `json:"i"`
	In       Input          `json:"in"`
	Concrete map[string]any `json:"concrete,omitempty"`
	Res      Res            `json:"res"`
	Pre      St             `json:"pre"`
	Post     St             `json:"post"`
	Obs      Obs            `json:"obs"`
}

var lastEvents string

var ctlNames = []string{"nopause", "clean", "noacts", "nopt", "plain"}

type Runner struct {
	w        *World
	controls map[string]bool
	mod      porttypes.IBCModule // the stack packets enter through
	instr    *Instr              // non-nil in instrumented mode
	fullLog  bool
	blocks   int64 // blocks elapsed in the current history (environment step "nextblock")
}

// otherSrcPort is a counterparty port identifier different from Noble's "transfer".
const otherSrcPort = "xfer-v2"

func (r *Runner) packet(in *Input) (channeltypes.Packet, map[string]any) {
	w := r.w
	w.seq++
	denom := w.denomOf(in)
	amount := amountOf(in)
	receiver := w.addrOf(in.Rcv)
	memo := w.memoOf(in)
	var data []byte
	if in.Dn == "RAWDATA" {
		if in.Mk == "RANDOM" {
			data = []byte(memo)
		} else {
			data = []byte(w.rawMemo(in.Raw))
		}
	} else if strings.HasPrefix(in.Raw, "DATA:") {
		// the packet the input describes, in an unusual spelling given literally
		data = []byte(w.rawMemo(in.Raw[5:]))
	} else {
		d := transfertypes.FungibleTokenPacketData{
			Denom: denom, Amount: amount,
			Sender:   counterpartySender, // fixed counterparty sender
			Receiver: receiver, Memo: memo,
		}
		data = d.GetBytes()
	}
	srcPort := "transfer"
	if in.Dn == "SRCPORT" || in.Dn == "RETPORT" {
		// the counterparty's port is not called "transfer" (the Noble end still is)
		srcPort = otherSrcPort
	}
	p := channeltypes.NewPacket(data, w.seq, srcPort, w.cpChanOf[in.Chan], "transfer", w.chanOf[in.Chan],
		clienttypes.NewHeight(1, 1000), 0)
	conc := map[string]any{"denom": denom, "amount": amount, "receiver": receiver, "memo": memo}
	return p, conc
}

// recvOn delivers the packet on a branch of ctx with ibc-go's commit rule and returns the
// acknowledgement class, text and the events of the callback.
func (r *Runner) recvOn(ctx sdk.Context, mod porttypes.IBCModule, p channeltypes.Packet) (res Res, evs []abci.Event) {
	cctx, write := ctx.CacheContext()
	cctx = cctx.WithEventManager(sdk.NewEventManager())
	var ack ibcexported.Acknowledgement
	func() {
		defer func() {
			if rec := recover(); rec != nil {
				if me, ok := rec.(machineryError); ok {
					panic(me)
				}
				res.Ack = "panic"
				res.Panic = fmt.Sprintf("%v", rec)
				res.Text = firstLines(string(debug.Stack()), 12)
			}
		}()
		ack = mod.OnRecvPacket(cctx, p, sdk.AccAddress("relayer_____________"))
	}()
	if res.Ack == "panic" {
		return res, nil
	}
	evs = cctx.EventManager().ABCIEvents()
	switch {
	case ack == nil:
		res.Ack = "nil"
		write()
	case ack.Success():
		res.Ack = "ok"
		res.Text = string(ack.Acknowledgement())
		write()
	default:
		res.Ack = "err"
		res.Text = string(ack.Acknowledgement())
		// ibc-go redacts ICS-20's own errors in the acknowledgement; the detail is in the event
		for _, e := range evs {
			for _, a := range e.Attributes {
				if a.Key == "error" {
					res.Detail += a.Value + " "
				}
			}
		}
	}
	return res, evs
}

func firstLines(s string, n int) string {
	ls := strings.Split(s, "\n")
	keep := []string{}
	for _, l := range ls {
		if strings.Contains(l, "orbiter") && !strings.Contains(l, "orbverif") {
			keep = append(keep, strings.TrimSpace(l))
		}
		if len(keep) >= n {
			break
		}
	}
	return strings.Join(keep, " | ")
}

var counterpartySender = sdk.MustBech32ifyAddressBytes("cosmos", []byte("sender______________"))

var denomHash = map[string]string{}

func init() {
	for _, d := range []string{"uusdc", "ustake", "uswap", "ubig", "UUSDC"} {
		denomHash[hex.EncodeToString(crypto.Keccak256([]byte(d)))] = d
	}
}

// observe reconstructs bridge requests and orbiter-account transfers from the typed events of
// the callback (app mode). In instrumented mode the recording wrappers supply them instead.
func (r *Runner) observe(evs []abci.Event) (reqs []Req, xfers []Xfer, types []string) {
	w := r.w
	reqs, xfers, types = []Req{}, []Xfer{}, []string{}
	orb := w.acct["orb"].String()
	for _, e := range evs {
		types = append(types, e.Type)
		switch e.Type {
		case "circle.cctp.v1.DepositForBurn":
			m, err := sdk.ParseTypedEvent(e)
			if err != nil {
				continue
			}
			d := m.(*cctptypes.DepositForBurn)
			den, ok := denomHash[d.BurnToken]
			if !ok {
				den = "?" + d.BurnToken
			}
			reqs = append(reqs, Req{Route: "CCTP", WithCaller: len(d.DestinationCaller) != 0,
				From: w.nameOfAddr(d.Depositor), Amt: capInt(d.Amount), Denom: den,
				Dom: int64(d.DestinationDomain), Mint: w.nameOfBytes(d.MintRecipient), Caller: w.nameOfCaller(d.DestinationCaller),
				Tok: "NONE", Rcp: "NONE", Hook: "NONE", Meta: "NONE", To: "NONE", Mfd: "NONE"})
		case "hyperlane.warp.v1.EventSendRemoteTransfer":
			m, err := sdk.ParseTypedEvent(e)
			if err != nil {
				continue
			}
			d := m.(*warptypes.EventSendRemoteTransfer)
			coins, err := sdk.ParseCoinsNormalized(d.Amount)
			rq := Req{Route: "HYP", From: w.nameOfAddr(d.Sender), Dom: int64(d.DestinationDomain),
				Tok: w.nameOfBytes(d.TokenId.Bytes()), Rcp: w.nameOfBytes(d.Recipient.Bytes()),
				Mint: "NONE", Caller: "NONE", Hook: "?", Meta: "?", To: "NONE", Gas: -1, MaxFee: -1, Mfd: "?"}
			if err == nil && len(coins) == 1 {
				rq.Amt = capInt(coins[0].Amount)
				rq.Denom = coins[0].Denom
			}
			reqs = append(reqs, rq)
		case banktypes.EventTypeTransfer:
			var from, to, amt string
			for _, a := range e.Attributes {
				switch a.Key {
				case banktypes.AttributeKeySender:
					from = a.Value
				case banktypes.AttributeKeyRecipient:
					to = a.Value
				case sdk.AttributeKeyAmount:
					amt = a.Value
				}
			}
			if from != orb && to != orb {
				continue
			}
			coins, err := sdk.ParseCoinsNormalized(amt)
			if err != nil {
				continue
			}
			for _, c := range coins {
				xfers = append(xfers, Xfer{From: w.nameOfAddr(from), To: w.nameOfAddr(to), Denom: c.Denom, Amt: capInt(c.Amount)})
			}
		}
	}
	return reqs, xfers, types
}

func emptyCtl() map[string]CtlOut {
	m := map[string]CtlOut{}
	for _, n := range ctlNames {
		m[n] = CtlOut{Req: []Req{}, Xfers: []Xfer{}}
	}
	return m
}

// step executes one abstract input on bctx (the behaviour's branch) and returns the trace line.
func (r *Runner) step(bctx sdk.Context, b string, i int, in Input) Line {
	w := r.w
	in.normalise()
	if i == 1 {
		r.blocks = 0
	}
	if r.blocks > 0 {
		// later blocks of the same chain: same stores, a later header
		h := w.base.BlockHeader()
		h.Height += r.blocks
		h.Time = h.Time.Add(time.Duration(r.blocks) * 6 * time.Second)
		bctx = bctx.WithBlockHeader(h)
	}
	ln := Line{B: b, I: i, In: in}
	ln.Pre = w.project(bctx)
	ln.Obs = Obs{OrbPre: w.orbAll(bctx), OthersPre: w.othersDigest(bctx), Req: []Req{}, Xfers: []Xfer{},
		Events: []string{}, Ctl: emptyCtl(), Fired: []string{}}

	// a discarded step runs on a branch of the behaviour's context that is never written back
	// (what baseapp does with a transaction whose later message fails, and with simulations)
	ectx := bctx
	if in.Disc {
		ectx, _ = bctx.CacheContext()
	}
	switch in.T {
	case "recv":
		r.doRecv(ectx, &ln)
	case "admin":
		r.doAdmin(ectx, &ln)
	case "deposit":
		r.doDeposit(ectx, &ln)
	case "env":
		r.doEnv(ectx, &ln)
	case "reimport":
		r.doReimport(ectx, &ln)
	case "query":
		r.doQuery(ectx, &ln)
	case "ackpkt", "timeout":
		r.doAckTimeout(ectx, &ln)
	case "ident":
		r.doIdent(ectx, &ln)
	case "gendoc":
		r.doGendoc(ectx, &ln)
	default:
		panic(machineryError{"unknown input kind " + in.T})
	}
	if in.Disc && in.T == "admin" {
		ln.Obs.X = r.pauseQueries(bctx) // the views after the branch is dropped
	}

	ln.Post = w.project(bctx)
	ln.Obs.OrbPost = w.orbAll(bctx)
	ln.Obs.OthersPost = w.othersDigest(bctx)
	if digestObs {
		if ln.Obs.X == nil {
			ln.Obs.X = map[string]any{}
		}
		ln.Obs.X["dig"] = r.stepDigest(bctx, &ln, lastEvents)
		ln.Obs.X["peers"] = []string{}
	}
	lastEvents = ""
	return ln
}

func (r *Runner) doRecv(bctx sdk.Context, ln *Line) {
	w := r.w
	in := &ln.In
	p, conc := r.packet(in)
	ln.Concrete = conc

	// control runs first, each on a throw-away branch of the same pre-state (DESIGN.md §5.5)
	if r.controls["nopause"] {
		c, _ := bctx.CacheContext()
		if r.clearPauses(c) {
			res, evs := r.recvOn(c, r.mod, p)
			rq, xf, _ := r.observe(evs)
			ln.Obs.Ctl["nopause"] = CtlOut{Run: true, Ack: res.Ack, Req: rq, Xfers: xf}
		}
	}
	if r.controls["clean"] {
		c, _ := bctx.CacheContext()
		if r.emptyOrbiter(c) {
			res, evs := r.recvOn(c, r.mod, p)
			rq, xf, _ := r.observe(evs)
			post := w.project(c)
			ln.Obs.Ctl["clean"] = CtlOut{Run: true, Ack: res.Ack, Req: rq, Xfers: xf, Post: &post}
		}
	}
	if r.controls["noacts"] && in.Mk == "PAYLOAD" && len(in.Acts) > 0 {
		c, _ := bctx.CacheContext()
		in2 := *in
		in2.Acts = []Act{}
		w.seq--
		p2, _ := r.packet(&in2)
		res, evs := r.recvOn(c, r.mod, p2)
		rq, xf, _ := r.observe(evs)
		ln.Obs.Ctl["noacts"] = CtlOut{Run: true, Ack: res.Ack, Req: rq, Xfers: xf}
	}
	if r.controls["nopt"] && in.Mk == "PAYLOAD" && in.Fw.Pt > 0 {
		c, _ := bctx.CacheContext()
		in2 := *in
		in2.Fw.Pt = 0
		w.seq--
		p2, _ := r.packet(&in2)
		res, evs := r.recvOn(c, r.mod, p2)
		rq, xf, _ := r.observe(evs)
		ln.Obs.Ctl["nopt"] = CtlOut{Run: true, Ack: res.Ack, Req: rq, Xfers: xf}
	}

	var bigPre map[string]math.Int
	if in.AmtC == "DIGITS" {
		bigPre = r.bigBalances(bctx, in)
	}
	var diff *DiffObs
	if diffObs {
		d := r.diffRecv(bctx, p)
		diff = &d
	}
	if r.instr != nil {
		r.instr.arm(in.Faults)
	}
	res, evs := r.recvOn(bctx, r.mod, p)
	ln.Res = res
	ln.Obs.Req, ln.Obs.Xfers, ln.Obs.Events = r.observe(evs)
	lastEvents = eventsText(evs)
	if r.instr != nil {
		ln.Obs.Fired = r.instr.firedList()
		if rq := r.instr.takeRequests(); rq != nil {
			ln.Obs.Req = rq
		}
		ln.Obs.X = r.instr.takeExtra()
		r.instr.disarm()
	}
	if diff != nil {
		if ln.Obs.X == nil {
			ln.Obs.X = map[string]any{}
		}
		ln.Obs.X["diff"] = *diff
	}
	if bigPre != nil {
		if ln.Obs.X == nil {
			ln.Obs.X = map[string]any{}
		}
		post := r.bigBalances(bctx, in)
		dec := func(a string) []int64 { return digitsOf(bigPre[a].Sub(post[a])) }
		inc := func(a string) []int64 { return digitsOf(post[a].Sub(bigPre[a])) }
		esc := "esc0"
		if in.Chan == 1 {
			esc = "esc1"
		}
		ln.Obs.X["big"] = map[string]any{
			"esc": dec(esc), "orb": digitsOf(post["orb"]), "orbPre": digitsOf(bigPre["orb"]), "dust": inc("dust"),
			"F1": inc("F1"), "F2": inc("F2"), "U": inc("U"),
		}
	}
	if parseObs && in.Dn != "RAWDATA" {
		if ln.Obs.X == nil {
			ln.Obs.X = map[string]any{}
		}
		memo, _ := conc["memo"].(string)
		po := w.parseTwice(memo)
		// history-independence: the app's long-lived adapter must accept the memo iff a fresh parser
		// does (only meaningful when the packet is addressed to the orbiter with a valid coin; for
		// other packets the adapter refuses for other reasons and no claim is made)
		po.Hist = true
		if in.Rcv == "ORB" && in.Dn == "RET" && (in.AmtC == "OK" || in.AmtC == "PLUS") && in.Amt > 0 {
			aok, _, _ := w.appAdapterAccepts(p)
			po.Hist = aok == po.Ok
		}
		ln.Obs.X["parse"] = po
		ln.Obs.X["rt"] = w.roundTrip(in, memo)
	}
}

// clearPauses empties the pause sets on the (control) branch through the keeper's own setters.
// It reports false when a setter refuses (the control run is then not comparable and is skipped).
// bigBalances reads the balances of the big-amount denom (exact, arbitrary precision).
func (r *Runner) bigBalances(ctx sdk.Context, in *Input) map[string]math.Int {
	out := map[string]math.Int{}
	for _, a := range []string{"esc0", "esc1", "orb", "dust", "F1", "F2", "U"} {
		out[a] = r.w.app.BankKeeper.GetBalance(ctx, r.w.acct[a], in.Base).Amount
	}
	return out
}

func (r *Runner) clearPauses(ctx sdk.Context) (ok bool) {
	defer func() {
		if rec := recover(); rec != nil {
			ok = false
		}
	}()
	k := r.w.app.OrbiterKeeper
	g := k.ExportGenesis(ctx)
	ok = true
	for _, p := range g.ForwarderGenesis.PausedProtocolIds {
		if k.Forwarder().SetUnpausedProtocol(ctx, p) != nil {
			ok = false
		}
	}
	for _, c := range g.ForwarderGenesis.PausedCrossChainIds {
		if k.Forwarder().SetUnpausedCrossChain(ctx, *c) != nil {
			ok = false
		}
	}
	for _, a := range g.ExecutorGenesis.PausedActionIds {
		if k.Executor().SetUnpausedAction(ctx, a) != nil {
			ok = false
		}
	}
	return ok
}

// emptyOrbiter moves every coin off the orbiter account on the (control) branch.
func (r *Runner) emptyOrbiter(ctx sdk.Context) bool {
	w := r.w
	coins := w.app.BankKeeper.GetAllBalances(ctx, w.acct["orb"])
	if coins.IsZero() {
		return true
	}
	err := w.app.BankKeeper.SendCoins(ctx, w.acct["orb"], fixedAddr("scratch"), coins)
	return err == nil
}

func (r *Runner) signerOf(s string) string { return r.w.addrOf(s) }

func (r *Runner) adminMsg(in *Input) sdk.Msg {
	signer := r.signerOf(in.Signer)
	pid, ok := pidName[in.Pid]
	if !ok {
		pid = strings.TrimPrefix(in.Pid, "L:")
	}
	aid, ok := aidName[in.Aid]
	if !ok {
		aid = strings.TrimPrefix(in.Aid, "L:")
	}
	if in.Rpc == os.Getenv("ORB_FORGET_RPC") {
		// self-test of the reflection path: treat a known RPC as one added later (default body)
		return r.w.defaultMsg(in.Rpc, signer)
	}
	switch in.Rpc {
	case "PauseProtocol":
		return &forwardertypes.MsgPauseProtocol{Signer: signer, ProtocolId: pid}
	case "UnpauseProtocol":
		return &forwardertypes.MsgUnpauseProtocol{Signer: signer, ProtocolId: pid}
	case "PauseCrossChains":
		return &forwardertypes.MsgPauseCrossChains{Signer: signer, ProtocolId: pid, CounterpartyIds: r.expandCps(in.Cps)}
	case "UnpauseCrossChains":
		return &forwardertypes.MsgUnpauseCrossChains{Signer: signer, ProtocolId: pid, CounterpartyIds: r.expandCps(in.Cps)}
	case "PauseAction":
		return &executortypes.MsgPauseAction{Signer: signer, ActionId: aid}
	case "UnpauseAction":
		return &executortypes.MsgUnpauseAction{Signer: signer, ActionId: aid}
	case "UpdateParams":
		v := uint32(0)
		if in.V < 0 {
			v = 4294967295
		} else {
			v = uint32(in.V)
		}
		return &adaptertypes.MsgUpdateParams{Signer: signer, Params: adaptertypes.Params{MaxPassthroughPayloadSize: v}}
	case "ReplaceDepositForBurn":
		return &forwardertypes.MsgReplaceDepositForBurn{Signer: signer,
			OriginalMessage: origMsg(in.Who), OriginalAttestation: []byte("att-" + in.Who),
			NewDestinationCaller: r.w.bytesOf(in.Fw.Caller), NewMintRecipient: r.w.bytesOf(in.Fw.Mint)}
	}
	// an RPC the specification does not model (added to the module later): default body
	return r.w.defaultMsg(in.Rpc, signer)
}

// expandCps expands the "PAD:<n>" instruction into n fresh valid numeric ids (batch-size grid).
func (r *Runner) expandCps(cps []string) []string {
	out := []string{}
	for _, c := range cps {
		if strings.HasPrefix(c, "PAD:") {
			n, _ := strconv.Atoi(c[4:])
			for k := 0; k < n; k++ {
				out = append(out, strconv.Itoa(1000+k))
			}
			continue
		}
		out = append(out, c)
	}
	return out
}

// msgOn runs one message with baseapp's single-message commit rule: written only on success.
func (r *Runner) msgOn(ctx sdk.Context, msg sdk.Msg) (res Res, evs []abci.Event) {
	cctx, write := ctx.CacheContext()
	cctx = cctx.WithEventManager(sdk.NewEventManager())
	var err error
	func() {
		defer func() {
			if rec := recover(); rec != nil {
				if me, ok := rec.(machineryError); ok {
					panic(me)
				}
				res.Ack = "panic"
				res.Panic = fmt.Sprintf("%v", rec)
			}
		}()
		if r.instr != nil {
			err = r.instr.handleMsg(cctx, msg)
		} else {
			h := r.w.app.MsgServiceRouter().Handler(msg)
			if h == nil {
				panic(machineryError{fmt.Sprintf("no handler for %T", msg)})
			}
			_, err = h(cctx, msg)
		}
	}()
	if res.Ack == "panic" {
		return res, nil
	}
	if err != nil {
		res.Ack = "err"
		res.Text = err.Error()
		return res, nil
	}
	res.Ack = "ok"
	write()
	return res, cctx.EventManager().ABCIEvents()
}

func (r *Runner) doAdmin(bctx sdk.Context, ln *Line) {
	msg := r.adminMsg(&ln.In)
	if r.instr != nil {
		r.instr.arm(ln.In.Faults)
	}
	res, evs := r.msgOn(bctx, msg)
	ln.Res = res
	ln.Obs.Req, ln.Obs.Xfers, ln.Obs.Events = r.observe(evs)
	lastEvents = eventsText(evs)
	if r.instr != nil {
		ln.Obs.Fired = r.instr.firedList()
		if rq := r.instr.takeRequests(); rq != nil {
			ln.Obs.Req = rq
		}
		r.instr.disarm()
	}
	ln.Obs.X = r.pauseQueries(bctx)
}

func (r *Runner) doDeposit(bctx sdk.Context, ln *Line) {
	w := r.w
	in := &ln.In
	from := in.Who
	if from == "" {
		from = "M"
	}
	msg := &banktypes.MsgSend{FromAddress: w.acct[from].String(), ToAddress: w.acct["orb"].String(),
		Amount: sdk.NewCoins(sdk.NewCoin(in.Denom, sdkInt(in.Amt)))}
	res, _ := r.msgOn(bctx, msg)
	ln.Res = res
}

func (r *Runner) doEnv(bctx sdk.Context, ln *Line) {
	w := r.w
	in := &ln.In
	var msg sdk.Msg
	switch in.Op {
	case "ftfPause":
		msg = &ftftypes.MsgPause{From: fixedAddr("ftf-pauser").String()}
	case "ftfUnpause":
		msg = &ftftypes.MsgUnpause{From: fixedAddr("ftf-pauser").String()}
	case "block":
		msg = &ftftypes.MsgBlacklist{From: fixedAddr("ftf-blacklister").String(), Address: w.acct[in.Who].String()}
	case "unblock":
		msg = &ftftypes.MsgUnblacklist{From: fixedAddr("ftf-blacklister").String(), Address: w.acct[in.Who].String()}
	case "cctpPause":
		msg = &cctptypes.MsgPauseBurningAndMinting{From: fixedAddr("cctp-pauser").String()}
	case "cctpUnpause":
		msg = &cctptypes.MsgUnpauseBurningAndMinting{From: fixedAddr("cctp-pauser").String()}
	case "bigback":
		// the recipient sends the big-denom coins out over IBC again: they return to the escrow
		// (cumulative traffic can exceed the supply; only the ledger movement is reproduced)
		bal := w.app.BankKeeper.GetBalance(bctx, w.acct["U"], "ubig")
		if bal.IsZero() {
			ln.Res = Res{Ack: "ok"}
			return
		}
		msg = &banktypes.MsgSend{FromAddress: w.acct["U"].String(), ToAddress: w.acct["esc0"].String(), Amount: sdk.NewCoins(bal)}
	case "nextblock":
		r.blocks++
		ln.Res = Res{Ack: "ok"}
		return
	case "escrowSwap":
		// some of the swap's output denomination left Noble over channel-0 earlier (escrowed there)
		msg = &banktypes.MsgSend{FromAddress: w.acct["pool"].String(), ToAddress: w.acct["esc0"].String(), Amount: sdk.NewCoins(sdk.NewCoin("uswap", math.NewInt(5000)))}
	case "bigdust":
		// somebody deposits 2^64 base units of the big denom on the orbiter account (the coins are
		// taken from the escrow, as if they had been transferred in and sent on earlier)
		two64, _ := math.NewIntFromString("18446744073709551616")
		msg = &banktypes.MsgSend{FromAddress: w.acct["esc0"].String(), ToAddress: w.acct["orb"].String(), Amount: sdk.NewCoins(sdk.NewCoin("ubig", two64))}
	default:
		panic(machineryError{"unknown env op " + in.Op})
	}
	// environment messages go through the app's own router in both modes
	saved := r.instr
	r.instr = nil
	res, _ := r.msgOn(bctx, msg)
	r.instr = saved
	ln.Res = res
	if in.Op == "escrowSwap" && res.Ack == "ok" {
		w.app.TransferKeeper.SetTotalEscrowForDenom(bctx, w.app.BankKeeper.GetBalance(bctx, w.acct["esc0"], "uswap"))
	}
	if (in.Op == "bigback" || in.Op == "bigdust") && res.Ack == "ok" {
		// ICS-20's own escrow bookkeeping, as a real outgoing transfer would update it
		w.app.TransferKeeper.SetTotalEscrowForDenom(bctx, w.app.BankKeeper.GetBalance(bctx, w.acct["esc0"], "ubig"))
	}
}

func (r *Runner) doReimport(bctx sdk.Context, ln *Line) {
	ln.Obs.X = r.reimport(bctx)
	ln.Res = Res{Ack: "ok"}
	if ok, _ := ln.Obs.X["initOk"].(bool); !ok {
		ln.Res.Ack = "err"
	}
}

var _ = core.ModuleName
