// diff.go — differential observations: the orbiter middleware against the wrapped transfer
// application alone (C07), and per-step determinism digests (C19). Pure observation.
package main

import (
	"crypto/sha256"
	"fmt"
	"regexp"
	"sort"
	"strings"

	abci "github.com/cometbft/cometbft/abci/types"
	sdk "github.com/cosmos/cosmos-sdk/types"
	"github.com/cosmos/ibc-go/v8/modules/apps/transfer"
	transfertypes "github.com/cosmos/ibc-go/v8/modules/apps/transfer/types"
	clienttypes "github.com/cosmos/ibc-go/v8/modules/core/02-client/types"
	channeltypes "github.com/cosmos/ibc-go/v8/modules/core/04-channel/types"
	porttypes "github.com/cosmos/ibc-go/v8/modules/core/05-port/types"
	ibcexported "github.com/cosmos/ibc-go/v8/modules/core/exported"

	"github.com/noble-assets/orbiter/v2/entrypoint"
)

var diffObs = false
var digestObs = false

type DiffObs struct {
	AckEq    bool   `json:"ackEq"`
	EventsEq bool   `json:"eventsEq"`
	StateEq  bool   `json:"stateEq"`
	PanicMW  bool   `json:"panicMW"`
	PanicPL  bool   `json:"panicPL"`
	AckMW    string `json:"ackMW"`
	AckPL    string `json:"ackPL"`
}

// ibc-go formats a math.Int with %d in one ICS-20 error ("got {824660078240}"), which prints a
// pointer; the address differs between any two executions of the SAME code, so it is masked.
var ptrText = regexp.MustCompile(`\{[0-9]{6,}\}`)

func eventsText(evs []abci.Event) string {
	return ptrText.ReplaceAllString(eventsTextRaw(evs), "{PTR}")
}

func eventsTextRaw(evs []abci.Event) string {
	var b strings.Builder
	for _, e := range evs {
		b.WriteString(e.Type)
		b.WriteByte('{')
		for _, a := range e.Attributes {
			b.WriteString(a.Key)
			b.WriteByte('=')
			b.WriteString(a.Value)
			b.WriteByte(';')
		}
		b.WriteByte('}')
	}
	return b.String()
}

// stacks returns the orbiter middleware directly over ICS-20 (no blockibc) and ICS-20 alone,
// both built from the app's own keepers.
func (r *Runner) stacks() (mw entrypoint.IBCMiddleware, plain porttypes.IBCModule) {
	plain = transfer.NewIBCModule(r.w.app.TransferKeeper)
	mw = entrypoint.NewIBCMiddleware(plain, r.w.app.IBCKeeper.ChannelKeeper, r.w.app.OrbiterKeeper.Adapter())
	return
}

type cbResult struct {
	text   string
	events string
	state  string
	panic  bool
}

func (r *Runner) runCallback(ctx sdk.Context, f func(sdk.Context) string) (out cbResult) {
	c, _ := ctx.CacheContext()
	c = c.WithEventManager(sdk.NewEventManager())
	func() {
		defer func() {
			if rec := recover(); rec != nil {
				if me, ok := rec.(machineryError); ok {
					panic(me)
				}
				out.panic = true
				out.text = fmt.Sprintf("PANIC: %v", rec)
			}
		}()
		out.text = f(c)
	}()
	out.events = eventsText(c.EventManager().ABCIEvents())
	out.state = r.w.storeDigest(c)
	return
}

func diffOf(a, b cbResult) DiffObs {
	return DiffObs{AckEq: a.text == b.text && a.panic == b.panic, EventsEq: a.events == b.events, StateEq: a.state == b.state,
		PanicMW: a.panic, PanicPL: b.panic, AckMW: clip(a.text, 300), AckPL: clip(b.text, 300)}
}

func clip(s string, n int) string {
	if len(s) > n {
		return s[:n]
	}
	return s
}

func ackText(a ibcexported.Acknowledgement) string {
	if a == nil {
		return "<nil>"
	}
	return string(a.Acknowledgement())
}

// diffRecv executes the same packet through both stacks on two branches of the same state.
func (r *Runner) diffRecv(ctx sdk.Context, p channeltypes.Packet) DiffObs {
	mw, plain := r.stacks()
	rel := sdk.AccAddress("relayer_____________")
	a := r.runCallback(ctx, func(c sdk.Context) string { return ackText(mw.OnRecvPacket(c, p, rel)) })
	b := r.runCallback(ctx, func(c sdk.Context) string { return ackText(plain.OnRecvPacket(c, p, rel)) })
	return diffOf(a, b)
}

// outgoing builds a packet that Noble "sent": used by the acknowledgement / timeout differential.
func (r *Runner) outgoing(in *Input) channeltypes.Packet {
	w := r.w
	w.seq++
	denom := in.Base
	if in.Dn == "VOUCHER" {
		denom = "transfer/" + w.chanOf[in.Chan] + "/" + in.Base // a voucher Noble minted earlier
	}
	d := transfertypes.FungibleTokenPacketData{Denom: denom, Amount: amountOf(in), Sender: w.addrOf(in.Who),
		Receiver: "cosmos1wdjkuer9wgh8xetwv3jhyunfdenk2unf0yl5zv", Memo: w.memoOf(in)}
	data := d.GetBytes()
	if in.Dn == "RAWDATA" {
		data = []byte(w.rawMemo(in.Raw))
	}
	return channeltypes.NewPacket(data, w.seq, "transfer", w.chanOf[in.Chan], "transfer", w.cpChanOf[in.Chan], clienttypes.NewHeight(1, 1000), 0)
}

// doAckTimeout: OnAcknowledgementPacket (success / error acknowledgement) and OnTimeoutPacket on
// both stacks, plus the send-side GetAppVersion wrapper. The middleware stack result is committed.
func (r *Runner) doAckTimeout(bctx sdk.Context, ln *Line) {
	in := &ln.In
	p := r.outgoing(in)
	mw, plain := r.stacks()
	rel := sdk.AccAddress("relayer_____________")
	var ack []byte
	switch in.Op {
	case "ackOk":
		ack = channeltypes.NewResultAcknowledgement([]byte{1}).Acknowledgement()
	case "ackErr":
		ack = channeltypes.NewErrorAcknowledgement(fmt.Errorf("remote failure")).Acknowledgement()
	case "ackGarbage":
		ack = []byte("not an acknowledgement")
	}
	call := func(m porttypes.IBCModule) func(sdk.Context) string {
		return func(c sdk.Context) string {
			var err error
			if in.T == "timeout" {
				err = m.OnTimeoutPacket(c, p, rel)
			} else {
				err = m.OnAcknowledgementPacket(c, p, ack, rel)
			}
			if err != nil {
				return "ERR: " + err.Error()
			}
			return "OK"
		}
	}
	a := r.runCallback(bctx, call(mw))
	b := r.runCallback(bctx, call(plain))
	d := diffOf(a, b)
	x := map[string]any{"diff": d}
	v1, ok1 := mw.GetAppVersion(bctx, "transfer", r.w.chanOf[in.Chan])
	v2, ok2 := r.w.app.IBCKeeper.ChannelKeeper.GetAppVersion(bctx, "transfer", r.w.chanOf[in.Chan])
	x["appVersionEq"] = v1 == v2 && ok1 == ok2
	ln.Obs.X = x
	// commit the effect through the app's own stack, with the callback's commit rule (error => discarded)
	cctx, write := bctx.CacheContext()
	cctx = cctx.WithEventManager(sdk.NewEventManager())
	res := Res{Ack: "ok"}
	func() {
		defer func() {
			if rec := recover(); rec != nil {
				res.Ack = "panic"
				res.Panic = fmt.Sprintf("%v", rec)
			}
		}()
		var err error
		if in.T == "timeout" {
			err = r.mod.OnTimeoutPacket(cctx, p, rel)
		} else {
			err = r.mod.OnAcknowledgementPacket(cctx, p, ack, rel)
		}
		if err != nil {
			res.Ack = "err"
			res.Text = err.Error()
		}
	}()
	if res.Ack == "ok" {
		write()
	}
	ln.Res = res
}

// stepDigest hashes everything observable about a step (C19).
func (r *Runner) stepDigest(ctx sdk.Context, ln *Line, evs string) string {
	w := r.w
	h := sha256.New()
	h.Write([]byte(ln.Res.Ack))
	h.Write([]byte(ln.Res.Text))
	h.Write([]byte(ln.Res.Panic))
	h.Write([]byte(evs))
	hg, _ := w.orbiterModule()
	func() {
		defer func() { _ = recover() }()
		h.Write(hg.ExportGenesis(ctx, w.cdc))
	}()
	var lines []string
	w.app.BankKeeper.IterateAllBalances(ctx, func(a sdk.AccAddress, c sdk.Coin) bool {
		lines = append(lines, a.String()+c.String())
		return false
	})
	sort.Strings(lines)
	h.Write([]byte(strings.Join(lines, "|")))
	h.Write([]byte(w.storeDigest(ctx)))
	return fmt.Sprintf("%x", h.Sum(nil))[:32]
}
