// mutate.go — structural JSON mutations of valid memos (C14/C15). The template memo is built
// from the abstract payload of the input; TLC chooses (path, mutation); this file only applies
// it. An ordered JSON tree is used so that duplicated keys and key order survive.
package main

import (
	"bytes"
	"encoding/json"
	"fmt"
	"math/rand"
	"strconv"
	"strings"
)

type jnode struct {
	kind string // "obj" | "arr" | "lit"
	keys []string
	vals []*jnode
	lit  string // raw JSON literal
}

func parseJNode(dec *json.Decoder) *jnode {
	tok, err := dec.Token()
	must(err)
	switch t := tok.(type) {
	case json.Delim:
		if t == '{' {
			n := &jnode{kind: "obj"}
			for dec.More() {
				k, err := dec.Token()
				must(err)
				n.keys = append(n.keys, k.(string))
				n.vals = append(n.vals, parseJNode(dec))
			}
			_, err := dec.Token()
			must(err)
			return n
		}
		n := &jnode{kind: "arr"}
		for dec.More() {
			n.vals = append(n.vals, parseJNode(dec))
		}
		_, err := dec.Token()
		must(err)
		return n
	case string:
		return &jnode{kind: "lit", lit: jstr(t)}
	case json.Number:
		return &jnode{kind: "lit", lit: t.String()}
	case bool:
		return &jnode{kind: "lit", lit: strconv.FormatBool(t)}
	case nil:
		return &jnode{kind: "lit", lit: "null"}
	}
	panic(machineryError{fmt.Sprintf("unexpected JSON token %v", tok)})
}

func (n *jnode) write(b *bytes.Buffer) {
	switch n.kind {
	case "obj":
		b.WriteByte('{')
		for i, k := range n.keys {
			if i > 0 {
				b.WriteByte(',')
			}
			b.WriteString(jstr(k))
			b.WriteByte(':')
			n.vals[i].write(b)
		}
		b.WriteByte('}')
	case "arr":
		b.WriteByte('[')
		for i, v := range n.vals {
			if i > 0 {
				b.WriteByte(',')
			}
			v.write(b)
		}
		b.WriteByte(']')
	default:
		b.WriteString(n.lit)
	}
}

func mutationLiteral(mut string) (string, bool) {
	switch mut {
	case "null":
		return "null", true
	case "emptyobj":
		return "{}", true
	case "emptyarr":
		return "[]", true
	case "string":
		return `"x"`, true
	case "number":
		return "7", true
	case "bool":
		return "true", true
	case "negative":
		return "-1", true
	case "two64":
		return "18446744073709551616", true
	case "huge":
		return "1e400", true
	case "emptystr":
		return `""`, true
	case "longstr":
		return jstr(strings.Repeat("A", 20000)), true
	case "numstr":
		return `"7"`, true
	case "deep":
		return strings.Repeat("[", 1000) + strings.Repeat("]", 1000), true
	case "deepobj":
		return strings.Repeat(`{"a":`, 1000) + "1" + strings.Repeat("}", 1000), true
	}
	return "", false
}

// mutateMemo applies mutation `mut` at dotted `path` ("" = the whole document) of template.
// It returns the mutated text and whether the path existed in the template.
func mutateMemo(template, path, mut string) (string, bool) {
	if path == "" || path == "root" {
		if mut == "absent" {
			return "", true
		}
		if lit, ok := mutationLiteral(mut); ok {
			return lit, true
		}
		if mut == "dupkey" {
			return `{"orbiter":null,` + template[1:], true
		}
		switch mut {
		case "trailgarbage":
			return template + " garbage", true
		case "trailobj":
			return template + `{"forward":{"receiver":"x"}}`, true
		case "trailbrace":
			return template + "}", true
		case "leadgarbage":
			return "x" + template, true
		case "tworoots":
			// the orbiter key between TWO foreign root keys
			return `{"forward":{"receiver":"x"},` + template[1:len(template)-1] + `,"wasm":{"contract":"y"}}`, true
		}
		return template, false
	}
	dec := json.NewDecoder(strings.NewReader(template))
	dec.UseNumber()
	root := parseJNode(dec)
	parts := strings.Split(path, ".")
	cur := root
	for pi, p := range parts {
		last := pi == len(parts)-1
		idx := -1
		switch cur.kind {
		case "obj":
			for i, k := range cur.keys {
				if k == p {
					idx = i
				}
			}
		case "arr":
			if j, err := strconv.Atoi(p); err == nil && j < len(cur.vals) {
				idx = j
			}
		}
		if idx < 0 {
			// a literal mutation of a key the template does not carry adds the key
			if lit, ok := mutationLiteral(mut); ok && last && cur.kind == "obj" {
				cur.keys = append(cur.keys, p)
				cur.vals = append(cur.vals, &jnode{kind: "lit", lit: lit})
				var b bytes.Buffer
				root.write(&b)
				return b.String(), true
			}
			return template, false
		}
		if !last {
			cur = cur.vals[idx]
			continue
		}
		switch mut {
		case "absent":
			if cur.kind == "obj" {
				cur.keys = append(cur.keys[:idx], cur.keys[idx+1:]...)
			}
			cur.vals = append(cur.vals[:idx], cur.vals[idx+1:]...)
		case "dupkey":
			if cur.kind != "obj" {
				return template, false
			}
			cur.keys = append(cur.keys, cur.keys[idx])
			cur.vals = append(cur.vals, &jnode{kind: "lit", lit: "null"})
		case "unknown3":
			// THREE unknown fields in the object at this path (which one a decoder names in its error
			// must not reach anything that is committed)
			node := cur.vals[idx]
			if node.kind != "obj" {
				return template, false
			}
			for _, k := range []string{"zq1", "zq2", "zq3"} {
				node.keys = append(node.keys, k)
				node.vals = append(node.vals, &jnode{kind: "lit", lit: "1"})
			}
		case "rename":
			if cur.kind != "obj" {
				return template, false
			}
			cur.keys[idx] = "forward"
		case "dupsame":
			if cur.kind != "obj" {
				return template, false
			}
			cur.keys = append(cur.keys, cur.keys[idx])
			cur.vals = append(cur.vals, cur.vals[idx])
		default:
			lit, ok := mutationLiteral(mut)
			if !ok {
				panic(machineryError{"unknown mutation " + mut})
			}
			cur.vals[idx] = &jnode{kind: "lit", lit: lit}
		}
	}
	var b bytes.Buffer
	root.write(&b)
	return b.String(), true
}

// randomBytesOf produces the seeded-random representatives of the unstructured classes (C14).
func randomBytesOf(class string, seed int64, w *World) string {
	r := rand.New(rand.NewSource(seed))
	switch class {
	case "BYTES":
		n := r.Intn(200)
		b := make([]byte, n)
		r.Read(b)
		return string(b)
	case "ASCII":
		n := r.Intn(300)
		b := make([]byte, n)
		for i := range b {
			b[i] = byte(32 + r.Intn(95))
		}
		return string(b)
	case "JSONISH":
		return randomJSON(r, 0)
	case "ORBJSON":
		return `{"orbiter":` + randomJSON(r, 0) + `}`
	case "ORBFIELDS":
		// random values under the real field names
		f := func() string { return randomJSON(r, 2) }
		return fmt.Sprintf(`{"orbiter":{"pre_actions":[{"id":%s,"attributes":{"@type":%s,"fees_info":[{"recipient":%s,"basis_points":{"value":%s}},{"recipient":%s,"amount":{"value":%s}}]}}],"forwarding":{"protocol_id":%s,"attributes":{"@type":%s,"recipient":%s,"destination_domain":%s,"mint_recipient":%s,"token_id":%s,"gas_limit":%s,"max_fee":%s},"passthrough_payload":%s}}}`,
			pick(r, `"ACTION_FEE"`, `1`, f()), pick(r, jstr(attrURL["FEE"]), f()), pick(r, jstr(w.acct["F1"].String()), f()), f(), f(), f(),
			pick(r, `"PROTOCOL_INTERNAL"`, `"PROTOCOL_CCTP"`, `"PROTOCOL_HYPERLANE"`, f()),
			pick(r, jstr(attrURL["INT"]), jstr(attrURL["CCTP"]), jstr(attrURL["HYP"]), f()), pick(r, jstr(w.acct["U"].String()), f()), f(), f(), f(), f(),
			pick(r, `{"denom":"uusdc","amount":"0"}`, `{"denom":`+f()+`,"amount":`+f()+`}`, f()), f())
	}
	return ""
}

func pick(r *rand.Rand, xs ...string) string { return xs[r.Intn(len(xs))] }

func randomJSON(r *rand.Rand, depth int) string {
	k := r.Intn(12)
	if depth > 3 && k < 4 {
		k += 4
	}
	switch k {
	case 0, 1:
		n := r.Intn(4)
		parts := []string{}
		keys := []string{"orbiter", "forwarding", "pre_actions", "attributes", "@type", "id", "protocol_id", "fees_info", "recipient", "value", "x"}
		for i := 0; i < n; i++ {
			parts = append(parts, jstr(keys[r.Intn(len(keys))])+":"+randomJSON(r, depth+1))
		}
		return "{" + strings.Join(parts, ",") + "}"
	case 2, 3:
		n := r.Intn(4)
		parts := []string{}
		for i := 0; i < n; i++ {
			parts = append(parts, randomJSON(r, depth+1))
		}
		return "[" + strings.Join(parts, ",") + "]"
	case 4:
		return "null"
	case 5:
		return pick(r, "true", "false")
	case 6:
		return pick(r, "0", "-1", "1", "4294967295", "4294967296", "18446744073709551616", "1e400", "-0", "1.5", "9223372036854775808")
	case 7:
		return jstr(pick(r, "", "x", "ACTION_FEE", "PROTOCOL_CCTP", "/noble.orbiter.controller.action.v2.FeeAttributes", "AAAA", "=", "noble1", "-5", "115792089237316195423570985008687907853269984665640564039457584007913129639935"))
	case 8:
		return strconv.Itoa(r.Intn(100000))
	case 9:
		b := make([]byte, r.Intn(40))
		r.Read(b)
		return jstr(b64(b))
	default:
		return jstr(strconv.Itoa(r.Intn(1000)))
	}
}
