// abstract.go — the abstract input vocabulary shared with spec/Orbiter.tla and its
// concretisation into bytes (DESIGN.md §4.2, §4.5). No expected values.
package main

import (
	"encoding/base64"
	"encoding/json"
	"fmt"
	"strconv"
	"strings"
)

// Fee is one fees_info entry.
type Fee struct {
	K  string  `json:"k"`  // "bps" | "fix" | "null" | "notype"
	V  int64   `json:"v"`  // value
	VC string  `json:"vc"` // value class: "OK" | "NEG" | "FRAC" | "ALPHA" | "EMPTY" | "PLUS" | "U32MAX" | "BIG256" | "OVF"
	To string  `json:"to"` // recipient: account name | "INVALID" | "EMPTY"
	Vd []int64 `json:"vd"` // decimal digits of the value when VC = "DIGITS" (beyond TLC's integers)
}

// Act is one pre-action.
type Act struct {
	ID   string `json:"id"` // "FEE" | "SWAP" | "UNSUPPORTED" | "A7" | numeric spellings "N1" "N2"
	At   string `json:"at"` // attribute type: "FEE" | "CCTP" | "UNREG" | "TEST" | "NONE"
	Fees []Fee  `json:"fees"`
}

// Fw is the forwarding descriptor. All fields are always present.
type Fw struct {
	Pid    string `json:"pid"` // "UNSUPPORTED" | "IBC" | "CCTP" | "HYP" | "INT" | "P5" | "P99" | "N2" "N3" "N4" (numeric spellings)
	At     string `json:"at"`  // attribute type: "CCTP" | "HYP" | "INT" | "FEE" | "UNREG" | "NONE"
	Dom    int64  `json:"dom"`
	Mint   string `json:"mint"`
	Caller string `json:"caller"`
	Tok    string `json:"tok"`
	Rcp    string `json:"rcp"`
	Hook   string `json:"hook"`
	Gas    int64  `json:"gas"`
	MaxFee int64  `json:"maxfee"`
	Mfd    string `json:"mfd"` // max fee denom
	Meta   string `json:"meta"` // "NONE" | "0x" | "0xAB" | "BAD"
	To     string `json:"to"`   // INT recipient: account name | "ORB_UPPER" | "INVALID" | "EMPTY"
	Pt     int64  `json:"pt"`   // passthrough payload length
}

// Input is one abstract input (a step of a behaviour).
type Input struct {
	T string `json:"t"` // "recv" | "admin" | "deposit" | "env" | "reimport" | "query" | "gendoc" | "ident" | "ackpkt" | "timeout"

	// recv
	Chan int     `json:"chan"`
	Rcv  string  `json:"rcv"`  // "ORB" | "ORB_UPPER" | account name | "INVALID" | "EMPTY"
	Dn   string  `json:"dn"`   // denom class: "RET" | "SRCNATIVE" | "OTHERCH" | "OTHERPORT" | "MULTI" | "RETRET" | "HASHED"
	Base string  `json:"base"` // base denom
	Amt  int64   `json:"amt"`
	Amtd []int64 `json:"amtd"` // decimal digits of the amount when AmtC = "DIGITS" (up to 2^256-1)
	AmtC string  `json:"amtc"` // amount encoding class: "OK" | "PLUS" | "LEADZERO" | "SPACE" | "FRAC" | "NEG" | "EMPTY" | "EXP" | "MAX256" | "OVER256" | "BIG"
	Mk   string  `json:"mk"`   // memo kind: "NONE" | "PAYLOAD" | "RAW"
	Fw   Fw      `json:"fw"`
	Acts []Act   `json:"acts"`
	Raw  string  `json:"raw"` // RAW memo: literal text, or a template instruction (see rawMemo)
	// instrumented mode
	Faults []string `json:"faults"`

	// admin
	Rpc    string     `json:"rpc"`
	Signer string     `json:"signer"` // "AUTH" | "AUTH_UPPER" | account name | "EMPTY" | "MALFORMED" | "AUTH_SPACE"
	Pid    string     `json:"pid"`    // protocol id spelling class (same vocabulary as Fw.Pid) or literal "L:<text>"
	Cps    []string   `json:"cps"`    // counterparty ids (literal strings)
	Cpc    [][]string `json:"cpc"`    // their characters (TLC cannot scan strings); filled by normalise
	Aid    string     `json:"aid"`    // action id
	V      int64      `json:"v"`      // UpdateParams value; -1 = U32MAX

	// deposit / env
	Denom string `json:"denom"`
	Op    string `json:"op"`
	Who   string `json:"who"`

	// ident (C20): counterparty spellings to try for protocol Pid
	Ids []IdEnt `json:"ids"`
	// gendoc (C17): abstract genesis document
	G GenDoc `json:"g"`
	// query (C13)
	Q QueryDesc `json:"q"`
	// the step runs in a branch that is thrown away afterwards (failed multi-message tx, simulation)
	Disc bool `json:"disc"`
}

// IdEnt is one counterparty spelling: the string, its characters and the domain it denotes
// according to the specification (-1 = none).
type IdEnt struct {
	Cp    string   `json:"cp"`
	Chars []string `json:"chars"`
	Dom   int64    `json:"dom"`
}

type GenCC struct {
	P     string   `json:"p"`
	Cp    string   `json:"cp"`
	Chars []string `json:"chars"`
}

// GenDoc describes an orbiter genesis document abstractly.
type GenDoc struct {
	PP     []string   `json:"pp"`   // paused protocol ids (names, "P99" = out of range, may repeat)
	PCC    []GenCC    `json:"pcc"`  // paused cross-chain ids ("NIL" protocol = nil entry)
	PA     []string   `json:"pa"`   // paused action ids
	Amts   []AmtEntry `json:"amts"` // dispatched amounts
	Cnts   []CntEntry `json:"cnts"` // dispatched counts
	Params int64      `json:"params"`
}

// QueryDesc describes one statistics query walk or direct lookup.
type QueryDesc struct {
	Kind       string `json:"kind"` // "amounts" | "counts"
	By         string `json:"by"`   // "src" | "dst" | "direct"
	Pid        string `json:"pid"`
	Limit      int64  `json:"limit"`
	Walk       string `json:"walk"` // "key" | "offset"
	Reverse    bool   `json:"reverse"`
	CountTotal bool   `json:"countTotal"`
	Sp         string `json:"sp"`
	Sc         string `json:"sc"`
	Dp         string `json:"dp"`
	Dc         string `json:"dc"`
	Denom      string `json:"denom"`
}

func (in *Input) normalise() {
	if in.Acts == nil {
		in.Acts = []Act{}
	}
	for i := range in.Acts {
		if in.Acts[i].Fees == nil {
			in.Acts[i].Fees = []Fee{}
		}
		for j := range in.Acts[i].Fees {
			if in.Acts[i].Fees[j].VC == "" {
				in.Acts[i].Fees[j].VC = "OK"
			}
			if in.Acts[i].Fees[j].Vd == nil {
				in.Acts[i].Fees[j].Vd = []int64{}
			}
		}
	}
	if in.Cps == nil {
		in.Cps = []string{}
	}
	in.Cpc = make([][]string, len(in.Cps))
	for i, c := range in.Cps {
		in.Cpc[i] = charsOf(c)
	}
	if in.Faults == nil {
		in.Faults = []string{}
	}
	if in.Amtd == nil {
		in.Amtd = []int64{}
	}
	if in.Ids == nil {
		in.Ids = []IdEnt{}
	}
	for i := range in.Ids {
		in.Ids[i].Chars = charsOf(in.Ids[i].Cp)
	}
	if in.G.PP == nil {
		in.G.PP = []string{}
	}
	if in.G.PCC == nil {
		in.G.PCC = []GenCC{}
	}
	for i := range in.G.PCC {
		in.G.PCC[i].Chars = charsOf(in.G.PCC[i].Cp)
	}
	if in.G.PA == nil {
		in.G.PA = []string{}
	}
	if in.G.Amts == nil {
		in.G.Amts = []AmtEntry{}
	}
	if in.G.Cnts == nil {
		in.G.Cnts = []CntEntry{}
	}
	if in.AmtC == "" {
		in.AmtC = "OK"
	}
	if in.Fw.Pid == "" {
		in.Fw = Fw{Pid: "INT", At: "INT", Mint: "NONE", Caller: "NONE", Tok: "NONE", Rcp: "NONE", Hook: "NONE", Meta: "NONE", To: "U"}
	}
	if in.Fw.Mfd == "" {
		in.Fw.Mfd = "uusdc"
	}
	for _, p := range []*string{&in.Fw.Mint, &in.Fw.Caller, &in.Fw.Tok, &in.Fw.Rcp, &in.Fw.Hook, &in.Fw.Meta, &in.Fw.To} {
		if *p == "" {
			*p = "NONE"
		}
	}
}

var verifSeed int64 = 1

const big256 = "115792089237316195423570985008687907853269984665640564039457584007913129639935" // 2^256-1
const over256 = "115792089237316195423570985008687907853269984665640564039457584007913129639936"

var pidSpelling = map[string]string{
	"UNSUPPORTED": `"PROTOCOL_UNSUPPORTED"`, "IBC": `"PROTOCOL_IBC"`, "CCTP": `"PROTOCOL_CCTP"`,
	"HYP": `"PROTOCOL_HYPERLANE"`, "INT": `"PROTOCOL_INTERNAL"`,
	"P5": `5`, "P99": `99`, "N0": `0`, "N1": `1`, "N2": `2`, "N3": `3`, "N4": `4`, "PNEG": `-1`,
	"PUNKNOWN": `"PROTOCOL_FOO"`,
}

// pidName is the string form used by admin messages and queries.
var pidName = map[string]string{
	"UNSUPPORTED": "PROTOCOL_UNSUPPORTED", "IBC": "PROTOCOL_IBC", "CCTP": "PROTOCOL_CCTP",
	"HYP": "PROTOCOL_HYPERLANE", "INT": "PROTOCOL_INTERNAL", "PUNKNOWN": "PROTOCOL_FOO",
	"EMPTY": "", "N2": "2", "LOWER": "protocol_cctp",
}

var aidSpelling = map[string]string{
	"UNSUPPORTED": `"ACTION_UNSUPPORTED"`, "FEE": `"ACTION_FEE"`, "SWAP": `"ACTION_SWAP"`,
	"A7": `7`, "A9": `9`, "A3": `3`, "A4": `4`, "N0": `0`, "N1": `1`, "N2": `2`, "AUNKNOWN": `"ACTION_FOO"`,
}

var aidName = map[string]string{
	"UNSUPPORTED": "ACTION_UNSUPPORTED", "FEE": "ACTION_FEE", "SWAP": "ACTION_SWAP",
	"AUNKNOWN": "ACTION_FOO", "EMPTY": "", "N1": "1", "LOWER": "action_fee",
}

var attrURL = map[string]string{
	"CCTP":  "/noble.orbiter.controller.forwarding.v1.CCTPAttributes",
	"HYP":   "/noble.orbiter.controller.forwarding.v1.HypAttributes",
	"INT":   "/noble.orbiter.controller.forwarding.v1.InternalAttributes",
	"FEE":   "/noble.orbiter.controller.action.v2.FeeAttributes",
	"UNREG": "/noble.orbiter.controller.forwarding.v1.DoesNotExist",
	"BANK":  "/cosmos.bank.v1beta1.MsgSend",
	"TEST":  "/testpb.TestActionAttr",
}

func jstr(s string) string {
	b, _ := json.Marshal(s)
	return string(b)
}

func b64(b []byte) string { return base64.StdEncoding.EncodeToString(b) }

// addrOf turns an abstract recipient into the concrete string.
func (w *World) addrOf(name string) string {
	switch name {
	case "INVALID":
		return "noble1notanaddress"
	case "EMPTY", "NONE":
		return ""
	case "ORB":
		return w.acct["orb"].String()
	case "ORB_UPPER":
		return strings.ToUpper(w.acct["orb"].String())
	case "ORB_MIXED":
		// mixed case is not valid bech32: it does NOT decode to the module address
		a := w.acct["orb"].String()
		return a[:10] + strings.ToUpper(a[10:])
	case "F1_UPPER":
		return strings.ToUpper(w.acct["F1"].String())
	case "F1_MIXED":
		a := w.acct["F1"].String()
		return a[:10] + strings.ToUpper(a[10:])
	case "F1_SPACE":
		return w.acct["F1"].String() + " "
	case "AUTH_MODNAME":
		return "gov" // the bare module name: not an address, does not denote the authority
	case "AUTH_UPPER":
		return strings.ToUpper(w.acct["AUTH"].String())
	case "AUTH_SPACE":
		return w.acct["AUTH"].String() + " "
	case "MALFORMED":
		return "noble1xyz"
	case "DUST":
		return w.acct["dust"].String()
	case "OTHER_HRP":
		return "cosmos1vl2eaj8e7cr6gr3rtr4ggc6j3pnqqzq2w9ywf0" // valid bech32, foreign prefix
	}
	if a, ok := w.acct[name]; ok {
		return a.String()
	}
	if strings.HasPrefix(name, "L:") {
		return name[2:]
	}
	return "noble1unknown" + name
}

func (w *World) bytesOf(name string) []byte {
	if name == "NONE" || name == "" {
		return nil
	}
	if v, ok := w.bytes32[name]; ok {
		return v
	}
	switch name {
	case "SHORT", "LONG33":
		return wrongLen(name)
	}
	return []byte(name)
}

func digitsString(d []int64) string {
	var b strings.Builder
	for _, x := range d {
		b.WriteString(strconv.FormatInt(x, 10))
	}
	return b.String()
}

func feeValueString(f Fee) string {
	switch f.VC {
	case "DIGITS":
		return digitsString(f.Vd)
	case "NEG":
		return "-" + strconv.FormatInt(f.V, 10)
	case "FRAC":
		return strconv.FormatInt(f.V, 10) + ".5"
	case "ALPHA":
		return "abc"
	case "EMPTY":
		return ""
	case "PLUS":
		return "+" + strconv.FormatInt(f.V, 10)
	case "LEADZERO":
		return "00" + strconv.FormatInt(f.V, 10)
	case "BIG256":
		return big256
	case "OVER256":
		return over256
	case "SPACE":
		return " " + strconv.FormatInt(f.V, 10)
	case "TRAILSP":
		return strconv.FormatInt(f.V, 10) + " "
	case "NEWLINE":
		return strconv.FormatInt(f.V, 10) + "\n"
	case "TAB":
		return "\t" + strconv.FormatInt(f.V, 10)
	}
	return strconv.FormatInt(f.V, 10)
}

func (w *World) feeJSON(f Fee) string {
	switch f.K {
	case "null":
		return "null"
	case "notype":
		return fmt.Sprintf(`{"recipient":%s}`, jstr(w.addrOf(f.To)))
	case "bps":
		v := strconv.FormatInt(f.V, 10)
		if f.VC == "U32MAX" {
			v = "4294967295"
		}
		return fmt.Sprintf(`{"recipient":%s,"basis_points":{"value":%s}}`, jstr(w.addrOf(f.To)), v)
	case "fix":
		return fmt.Sprintf(`{"recipient":%s,"amount":{"value":%s}}`, jstr(w.addrOf(f.To)), jstr(feeValueString(f)))
	}
	return `{}`
}

func (w *World) actJSON(a Act) string {
	if a.ID == "NULL" {
		return "null"
	}
	var attrs string
	switch a.At {
	case "NONE":
		attrs = ""
	case "FEE":
		fs := make([]string, len(a.Fees))
		for i, f := range a.Fees {
			fs[i] = w.feeJSON(f)
		}
		attrs = fmt.Sprintf(`{"@type":%s,"fees_info":[%s]}`, jstr(attrURL["FEE"]), strings.Join(fs, ","))
	case "CCTP":
		attrs = fmt.Sprintf(`{"@type":%s,"destination_domain":0,"mint_recipient":%s}`, jstr(attrURL["CCTP"]), jstr(b64(w.bytes32["MINT_A"])))
	case "TEST":
		attrs = fmt.Sprintf(`{"@type":%s,"whatever":"x"}`, jstr(attrURL["TEST"]))
	case "TEST3":
		attrs = fmt.Sprintf(`{"@type":%s,"whatever":"x3"}`, jstr(attrURL["TEST"]))
	default:
		attrs = fmt.Sprintf(`{"@type":%s}`, jstr(attrURL[a.At]))
	}
	id := aidSpelling[a.ID]
	if id == "" {
		id = jstr(a.ID)
	}
	if attrs == "" {
		return fmt.Sprintf(`{"id":%s}`, id)
	}
	return fmt.Sprintf(`{"id":%s,"attributes":%s}`, id, attrs)
}

func metaString(m string) string {
	switch m {
	case "NONE":
		return ""
	case "BAD":
		return "zz"
	case "BADHEX":
		return "0xzz"
	}
	return m
}

func (w *World) fwJSON(f Fw) string {
	var attrs string
	switch f.At {
	case "NONE":
		attrs = ""
	case "CCTP":
		attrs = fmt.Sprintf(`{"@type":%s,"destination_domain":%d,"mint_recipient":%s,"destination_caller":%s}`,
			jstr(attrURL["CCTP"]), f.Dom, jstr(b64(w.bytesOf(f.Mint))), jstr(b64(w.bytesOf(f.Caller))))
	case "HYP":
		attrs = fmt.Sprintf(`{"@type":%s,"token_id":%s,"destination_domain":%d,"recipient":%s,"custom_hook_id":%s,"custom_hook_metadata":%s,"gas_limit":%s,"max_fee":{"denom":%s,"amount":%s}}`,
			jstr(attrURL["HYP"]), jstr(b64(w.bytesOf(f.Tok))), f.Dom, jstr(b64(w.bytesOf(f.Rcp))),
			jstr(b64(w.bytesOf(f.Hook))), jstr(metaString(f.Meta)), jstr(strconv.FormatInt(f.Gas, 10)), jstr(f.Mfd), jstr(strconv.FormatInt(f.MaxFee, 10)))
	case "INT":
		attrs = fmt.Sprintf(`{"@type":%s,"recipient":%s}`, jstr(attrURL["INT"]), jstr(w.addrOf(f.To)))
	case "FEE":
		attrs = fmt.Sprintf(`{"@type":%s,"fees_info":[]}`, jstr(attrURL["FEE"]))
	default:
		attrs = fmt.Sprintf(`{"@type":%s}`, jstr(attrURL[f.At]))
	}
	pid := pidSpelling[f.Pid]
	if pid == "" {
		pid = jstr(f.Pid)
	}
	parts := []string{fmt.Sprintf(`"protocol_id":%s`, pid)}
	if attrs != "" {
		parts = append(parts, `"attributes":`+attrs)
	}
	if f.Pt > 0 {
		parts = append(parts, `"passthrough_payload":`+jstr(b64(make([]byte, f.Pt))))
	}
	return "{" + strings.Join(parts, ",") + "}"
}

// memoOf builds the memo text of a recv input.
func (w *World) memoOf(in *Input) string {
	switch in.Mk {
	case "NONE":
		return ""
	case "RAW":
		return w.rawMemo(in.Raw)
	case "MUT":
		t := *in
		t.Mk = "PAYLOAD"
		t.Raw = ""
		m, _ := mutateMemo(w.memoOf(&t), in.Aid, in.Op)
		return m
	case "RANDOM":
		return randomBytesOf(in.Op, verifSeed*1000003+in.V, w)
	}
	acts := make([]string, len(in.Acts))
	for i, a := range in.Acts {
		acts[i] = w.actJSON(a)
	}
	pa := ""
	if len(acts) > 0 {
		pa = fmt.Sprintf(`"pre_actions":[%s],`, strings.Join(acts, ","))
	}
	return fmt.Sprintf(`{"orbiter":{%s"forwarding":%s}}`, pa, w.fwJSON(in.Fw))
}

// rawMemo expands placeholders in raw memo templates so that TLC-side descriptors stay abstract:
// $U $F1 ... -> addresses, $MINT_A ... -> base64 of the abstract 32-byte values.
func (w *World) rawMemo(raw string) string {
	out := raw
	for name, a := range w.acct {
		out = strings.ReplaceAll(out, "$ADDR_"+name, a.String())
	}
	for name, v := range w.bytes32 {
		out = strings.ReplaceAll(out, "$B64_"+name, b64(v))
	}
	return out
}

// denomOf builds the packet denom string from the denom class.
func (w *World) denomOf(in *Input) string {
	src := "transfer/" + w.cpChanOf[in.Chan] + "/"
	other := "transfer/channel-55/"
	switch in.Dn {
	case "RET":
		return src + in.Base
	case "SRCNATIVE":
		return in.Base
	case "OTHERCH":
		return other + in.Base
	case "SIBLING":
		// a voucher that IS returning-native on the test-bed's other channel, arriving over this one
		return "transfer/" + w.cpChanOf[1-in.Chan] + "/" + in.Base
	case "NOBLESIDE":
		// prefixed by the NOBLE-side identifier of this channel (the packet's destination end)
		return "transfer/" + w.chanOf[in.Chan] + "/" + in.Base
	case "SRCPORT":
		// the counterparty port is otherSrcPort; the denom is prefixed with NOBLE's port name and the
		// source channel: not a voucher of (source port, source channel), i.e. native to the sender
		return "transfer/" + w.cpChanOf[in.Chan] + "/" + in.Base
	case "RETPORT":
		// the counterparty port is otherSrcPort and the denom is prefixed with it: returning native
		return otherSrcPort + "/" + w.cpChanOf[in.Chan] + "/" + in.Base
	case "OTHERPORT":
		return "other/" + w.cpChanOf[in.Chan] + "/" + in.Base
	case "MULTI":
		return src + other + in.Base
	case "RETRET":
		return src + src + in.Base
	case "OTHERRET":
		return other + src + in.Base
	case "L":
		return in.Base // literal
	}
	return in.Base
}

func amountOf(in *Input) string {
	n := strconv.FormatInt(in.Amt, 10)
	switch in.AmtC {
	case "DIGITS":
		return digitsString(in.Amtd)
	case "PLUS":
		return "+" + n
	case "LEADZERO":
		return "000" + n
	case "SPACE":
		return " " + n
	case "FRAC":
		return n + ".0"
	case "NEG":
		return "-" + n
	case "EMPTY":
		return ""
	case "EXP":
		return "1e3"
	case "MAX256":
		return big256
	case "OVER256":
		return over256
	case "HEX":
		return "0x10"
	case "UNDERSCORE":
		return "1_000"
	}
	return n
}

// charsOf splits a string into one-character strings (runes), for TLC.
func charsOf(s string) []string {
	out := []string{}
	for _, r := range s {
		out = append(out, string(r))
	}
	return out
}
