// orbsim — conformance harness for the orbiter TLA+ specification. It builds against /repo's
// current working tree, instantiates the real SimApp in-process, executes abstract inputs after
// concretising them and logs what the code did as NDJSON (one line per step). It contains no
// expected values: the oracle is the specification, evaluated by TLC.
//
// Exit codes: 0 = ran; 2 = machinery error.
package main

import (
	"bufio"
	"crypto/sha256"
	"encoding/json"
	"flag"
	"fmt"
	"os"
	"strconv"
	"strings"

	"cosmossdk.io/math"
	authtypes "github.com/cosmos/cosmos-sdk/x/auth/types"
)

func sdkInt(v int64) math.Int { return math.NewInt(v) }

type Behaviour struct {
	B     string  `json:"b"`
	Steps []Input `json:"steps"`
}

func main() {
	defer func() {
		if r := recover(); r != nil {
			if me, ok := r.(machineryError); ok {
				fmt.Fprintln(os.Stderr, "MACHINERY-ERROR:", me.msg)
				os.Exit(2)
			}
			panic(r)
		}
	}()
	if len(os.Args) < 2 {
		fmt.Fprintln(os.Stderr, "usage: orbsim run|grid ...")
		os.Exit(2)
	}
	switch os.Args[1] {
	case "run":
		cmdRun(os.Args[2:])
	case "ident":
		cmdIdent(os.Args[2:])
	case "gendoc":
		cmdGendoc(os.Args[2:])
	case "parse":
		cmdParse(os.Args[2:])
	case "storedebug":
		w, err := NewWorld(nil)
		must(err)
		for _, k := range w.app.GetStoreKeys() {
			func() {
				defer func() { _ = recover() }()
				st := w.base.MultiStore().GetKVStore(k)
				it := st.Iterator(nil, nil)
				defer it.Close()
				h := sha256.New()
				n := 0
				for ; it.Valid(); it.Next() {
					h.Write(it.Key())
					h.Write(it.Value())
					n++
				}
				fmt.Printf("%s %d %x\n", k.Name(), n, h.Sum(nil)[:6])
			}()
		}
	case "rpcs":
		cmdRpcs(os.Args[2:])
	default:
		fmt.Fprintln(os.Stderr, "unknown command", os.Args[1])
		os.Exit(2)
	}
}

func cmdRun(args []string) {
	fs := flag.NewFlagSet("run", flag.ExitOnError)
	inPath := fs.String("in", "", "behaviours NDJSON ({\"b\":id,\"steps\":[...]} per line)")
	outPath := fs.String("out", "", "trace NDJSON")
	mode := fs.String("mode", "app", "app | instr | instrswap")
	controls := fs.String("controls", "", "comma list of control runs: nopause,clean,noacts,nopt")
	full := fs.Bool("fullreimport", false, "boot a full second chain on reimport")
	digests := fs.Bool("digests", false, "log per-step determinism digests (C19)")
	dflag := fs.Bool("diff", false, "differential of the middleware against the wrapped transfer app (C07)")
	pobs := fs.Bool("parseobs", false, "log direct parser observations and constructor round trips (C15)")
	skipDisc := fs.Bool("skipdisc", false, "do not execute discarded steps at all (a node that never served the simulation / failed tx)")
	fresp := fs.Bool("faultresp", false, "an injected failure of a message server / query returns a non-nil zero response together with the error")
	reverse := fs.Bool("reverse", false, "replay the histories in reverse order (a different process history)")
	must(fs.Parse(args))
	fullReimport = *full
	faultResp = *fresp
	parseObs = *pobs
	digestObs = *digests
	diffObs = *dflag
	if v := os.Getenv("VERIF_SEED"); v != "" {
		if n, err := strconv.ParseInt(v, 10, 64); err == nil {
			verifSeed = n
		}
	}

	w, err := NewWorld(nil)
	if err != nil {
		panic(machineryError{err.Error()})
	}
	r := &Runner{w: w, controls: map[string]bool{}, mod: w.mod}
	for _, c := range strings.Split(*controls, ",") {
		if c != "" {
			r.controls[c] = true
		}
	}
	switch *mode {
	case "app":
	case "instr":
		r.instr = NewInstr(w, false)
		r.mod = r.instr.stack
	case "instrauth":
		// the authority is the gov MODULE account; "AUTH" now denotes that address
		gov := authtypes.NewModuleAddress("gov")
		authorityOverride = gov.String()
		delete(w.acctName, w.acct["AUTH"].String())
		w.acct["AUTH"] = gov
		w.acctName[gov.String()] = "AUTH"
		r.instr = NewInstr(w, false)
		r.mod = r.instr.stack
	case "instrswap":
		r.instr = NewInstr(w, true)
		r.mod = r.instr.stack
	default:
		panic(machineryError{"unknown mode"})
	}

	in, err := os.Open(*inPath)
	must(err)
	defer in.Close()
	out, err := os.Create(*outPath)
	must(err)
	defer out.Close()
	bw := bufio.NewWriterSize(out, 1<<20)
	defer bw.Flush()
	enc := json.NewEncoder(bw)
	enc.SetEscapeHTML(false)

	sc := bufio.NewScanner(in)
	sc.Buffer(make([]byte, 1<<20), 64<<20)
	nb, ns := 0, 0
	var lines []string
	for sc.Scan() {
		line := strings.TrimSpace(sc.Text())
		if line != "" {
			lines = append(lines, line)
		}
	}
	must(sc.Err())
	if *reverse {
		for i, j := 0, len(lines)-1; i < j; i, j = i+1, j-1 {
			lines[i], lines[j] = lines[j], lines[i]
		}
	}
	for _, line := range lines {
		var b Behaviour
		if err := json.Unmarshal([]byte(line), &b); err != nil {
			panic(machineryError{"bad behaviour line: " + err.Error()})
		}
		bctx, _ := w.base.CacheContext()
		w.seq = 0
		for i, s := range b.Steps {
			if *skipDisc && s.Disc {
				// the step leaves no committed state by specification: this node never ran it.
				// (packet sequence numbers stay those of the full history)
				if s.T == "recv" {
					w.seq++
				}
				s.normalise()
				must(enc.Encode(Line{B: b.B, I: i + 1, In: s, Res: Res{Ack: "skipped"}}))
				ns++
				continue
			}
			ln := r.step(bctx, b.B, i+1, s)
			must(enc.Encode(ln))
			ns++
		}
		nb++
	}
	fmt.Fprintf(os.Stderr, "orbsim: %d behaviours, %d steps\n", nb, ns)
}
