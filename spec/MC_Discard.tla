----------------------------- MODULE MC_Discard -----------------------------
(* Family DISCARD (C08, C09, C12, C18): steps whose branch is thrown away (a          *)
(* transaction whose later message fails, a gas simulation, CheckTx) interleaved with  *)
(* committed ones.  Whatever a discarded step did - pause, unpause, parameter update,  *)
(* a complete transfer with fees and statistics - must have no influence on any later  *)
(* committed step or view: the module's state is what the store holds, nothing kept in *)
(* process memory may outlive the branch.                                              *)
EXTENDS OrbiterProps, Inputs
CONSTANT MaxDepth

Fee1 == <<FeeAct(<<Bps(100, "F1")>>)>>
Probes == { Xfer(0, "uusdc", 1000, FwCCTP(0, "MINT_A", "NONE"), <<>>), Xfer(0, "uusdc", 1000, FwCCTP(0, "MINT_A", "NONE"), Fee1),
            Xfer(0, "uusdc", 1000, FwHYP("T1", 1, "R_A"), <<>>), Xfer(0, "uusdc", 1000, [FwINT("U") EXCEPT !.pt = 2], <<>>),
            Xfer(1, "uusdc", 700, FwINT("U"), Fee1) }
Msgs == { PauseProtocol("AUTH", "CCTP"), UnpauseProtocol("AUTH", "CCTP"), PauseCC("AUTH", "CCTP", <<Cp0>>), UnpauseCC("AUTH", "CCTP", <<Cp0>>),
          PauseCC("AUTH", "HYP", <<Cp1>>), UnpauseCC("AUTH", "HYP", <<Cp1>>),
          PauseAction("AUTH", "FEE"), UnpauseAction("AUTH", "FEE"), UpdateParams("AUTH", 2), UpdateParams("AUTH", 0) }
Block    == EnvIn("nextblock", "")
Setup    == Msgs \cup Probes \cup {Block}
Discards == { Discarded(x) : x \in Msgs \cup Probes }
After    == Probes \cup {ReimportIn}
MCAlphabet == Setup \cup Discards \cup After
SmallAlphabet == MCAlphabet
\* positional alphabets for generation: committed prefix, one or two discarded steps, committed suffix
PosAlphabet(i, n) == IF i = n THEN After ELSE IF i * 2 > n THEN Discards ELSE Setup

StepProps == [][ last'.in.disc \/
                 ( /\ Prop_C08(last') /\ Prop_C09(last') /\ Prop_C10(last') /\ Prop_C18(last')
                   /\ Prop_C01(last') /\ MC_C02(last') /\ Prop_C05(last') /\ Prop_C12(last') /\ Prop_C17(last') ) ]_vars
\* a discarded step never changes the state
DiscardInert == [][ last'.in.disc => st' = st ]_vars
Depth == TLCGet("level") <= MaxDepth
View == <<st.pProto, st.pCC, st.pAct, st.maxPT, st.hasParams, st.amt, st.cnt>>
=============================================================================
