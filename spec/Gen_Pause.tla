------------------------------ MODULE Gen_Pause ------------------------------
(* Generation (DESIGN.md section 5.1): TLC enumerates input histories of the       *)
(* specification and prints them as JSON; harness/orbsim replays them in the real  *)
(* code.  Exhaustive: breadth-first with the history in the state (all histories   *)
(* of length GenDepth over GenAlphabet).  Random: tlc -simulate.                   *)
EXTENDS MC_Pause, Json
CONSTANT GenDepth, GenSet
VARIABLES hist, done

GenAlphabet == IF GenSet = "small" THEN SmallAlphabet ELSE MCAlphabet

GenInit == st = InitSt /\ last = NullStep /\ hist = <<>> /\ done = FALSE
GenNext == \/ /\ Len(hist) < GenDepth
              /\ \E in \in GenAlphabet : st' = Apply(st, in).st /\ hist' = Append(hist, in)
              /\ UNCHANGED <<last, done>>
           \* a single closing step, so that every complete history is emitted exactly once
           \* (in simulation mode TLC evaluates invariants on every candidate successor)
           \/ /\ Len(hist) = GenDepth /\ ~done /\ done' = TRUE /\ UNCHANGED <<st, last, hist>>
GenSpec == GenInit /\ [][GenNext]_<<st, last, hist, done>>

\* simulation: one random input per step instead of all |Alphabet| candidate successors
SimNext == \/ /\ Len(hist) < GenDepth
              /\ LET in == RandomElement(GenAlphabet) IN st' = Apply(st, in).st /\ hist' = Append(hist, in)
              /\ UNCHANGED <<last, done>>
           \/ /\ Len(hist) = GenDepth /\ ~done /\ done' = TRUE /\ UNCHANGED <<st, last, hist>>
SimSpec == GenInit /\ [][SimNext]_<<st, last, hist, done>>

(* Tour (DESIGN.md 5.1, "transition tour"): the view keeps the module's own state only, so TLC's  *)
(* breadth-first search expands every state of the COMPLETE pause-state graph exactly once,        *)
(* carrying the shortest history by which it was first reached.                                     *)
(*   TourMode = "edges":  one history per TRANSITION of the graph (shortest path + the input);      *)
(*   TourMode = "states": one history per STATE (shortest path + every probe transfer in a row:     *)
(*                        probes do not move the pause state, so all are judged in that state).     *)
(* The printing conjuncts are evaluated by TLC once per expanded state / per generated successor.   *)
CONSTANT TourMode
ProbeSeq == SetToSeq(Probes \cup EmptyFeeProbes \cup PtProbes \cup NoCtlProbes)
TourNext == /\ (TourMode = "states" => PrintT(<<"BEHAVIOUR", ToJson(hist \o ProbeSeq)>>))
            /\ \E in \in GenAlphabet :
                 /\ st' = Apply(st, in).st /\ hist' = Append(hist, in)
                 /\ (TourMode = "edges" => PrintT(<<"BEHAVIOUR", ToJson(hist')>>))
            /\ UNCHANGED <<last, done>>
TourSpec == GenInit /\ [][TourNext]_<<st, last, hist, done>>
TourView == <<st.pProto, st.pCC, st.pAct, st.maxPT, st.hasParams>>

Emit == done => PrintT(<<"BEHAVIOUR", ToJson(hist)>>)
=============================================================================

