SPECIFICATION Spec
CONSTANT Alphabet <- MCAlphabet
CONSTANT SwapRegistered = FALSE
CONSTANT MaxDepth = 2
CONSTANT FaultSet = "single"
PROPERTY StepProps
CONSTRAINT Depth
VIEW View
CHECK_DEADLOCK FALSE
