SPECIFICATION GenSpec
CONSTANT Alphabet <- MCAlphabet
CONSTANT SwapRegistered = FALSE
CONSTANT MaxDepth = 1
CONSTANT Ks = {31, 32, 63, 64, 65, 128, 255, 256}
CONSTANT GenDepth = 1
CONSTANT GenSet = "full"
INVARIANT Emit
CHECK_DEADLOCK FALSE
