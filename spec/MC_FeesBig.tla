----------------------------- MODULE MC_FeesBig -----------------------------
(* Family FEESBIG (C04, C02 at full precision): amounts around every power of two   *)
(* up to 2^256, 10^19, 2^256-1 and the overflow edges floor((2^256-1)/bps) (+1),     *)
(* each with fee lists mixing basis points (incl. the extremes 1 and 10000), fixed   *)
(* fees given as full-precision digit sequences (A-1, A, 2^256-1) and repeated        *)
(* recipients.  TLC computes the expected credits with exact digit-sequence           *)
(* arithmetic (BigNat.tla); every point is one packet through the real application.   *)
EXTENDS OrbiterProps, Inputs, BigAmounts
CONSTANT MaxDepth, Ks

EB(v, to) == [k |-> "bps", v |-> v, vc |-> "OK", to |-> to, vd |-> <<>>]
EF(v, to) == [k |-> "fix", v |-> v, vc |-> "OK", to |-> to, vd |-> <<>>]
ED(d, to) == [k |-> "fix", v |-> 0, vc |-> "DIGITS", to |-> to, vd |-> d]
ListsFor(AA) == { <<EB(250, "F1")>>, <<EB(250, "F1"), EF(7, "F2"), EB(1, "F1")>>, <<EB(10000, "F1")>>, <<EB(9999, "F1")>>,
                  <<EB(5000, "F1"), EB(5000, "F2")>>, <<EB(3333, "F1"), EB(3333, "F2"), EB(3333, "F1")>>, <<EB(1, "F1")>>,
                  <<ED(AA, "F2")>>, <<EB(2, "F1"), ED(BMax256, "F2")>>, <<EB(10001, "F1")>>, <<>> }
                \cup (IF BIsZero(AA) \/ AA = <<1>> THEN {} ELSE { <<ED(BSub(AA, <<1>>), "F2")>>, <<EB(1, "F1"), ED(BSub(AA, <<1>>), "F2")>> })
Amounts == UNION { {Pow2Around(k)[1], Pow2Around(k)[2], Pow2Around(k)[3]} : k \in Ks }
           \cup { TenPow19, BMax256 } \cup UNION { {OverflowEdge(b)[1], OverflowEdge(b)[2]} : b \in {2, 250, 3333, 5000, 9999, 10000} }
BigXfer(AA, fs) == [Xfer(0, "ubig", 0, FwINT("U"), <<FeeAct(fs)>>) EXCEPT !.amtc = "DIGITS", !.amtd = AA]
Grid == UNION { { BigXfer(AA, fs) : fs \in ListsFor(AA) } : AA \in Amounts \ {<<0>>} }
MCAlphabet == Grid
SmallAlphabet == Grid
StepProps == [][ Prop_C04big(last') /\ Prop_C02big(last') /\ Prop_C01(last') ]_vars
\* arithmetic lemmas at full precision: for a valid list that is not refused, credits + forwarded = A and forwarded > 0
ASSUME \A AA \in {TenPow19, BMax256, OverflowEdge(250)[1], Pow2Around(64)[2], Pow2Around(128)[1]} : \A fs \in ListsFor(AA) :
          ~BigRefused(AA, fs) => /\ BLt(BigTotal(AA, fs), AA)
                                 /\ BEq(BAdd(BAdd(BigCredit(AA, fs, "F1"), BigCredit(AA, fs, "F2")), BSub(AA, BigTotal(AA, fs))), AA)
Depth == TLCGet("level") <= MaxDepth
View == st
=============================================================================
