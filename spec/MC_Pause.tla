------------------------------ MODULE MC_Pause ------------------------------
(* Family PAUSE (C08, C09, C10, C18): every authority message with every signer   *)
(* class, batches with duplicates / invalid ids, parameter updates, interleaved   *)
(* with probe transfers to every destination, with and without the fee action and *)
(* with passthrough payloads around the limit.  The pause-state graph is explored *)
(* COMPLETELY (no depth bound): the view keeps only the module's own state.       *)
EXTENDS OrbiterProps, Inputs
CONSTANT MaxDepth, PauseSet

Cp01 == <<"01", <<"0", "1">>>>           \* non-canonical spelling of domain 1
CpPlus1 == <<"+1", <<"+", "1">>>>
CpBig == <<"4294967296", <<"4","2","9","4","9","6","7","2","9","6">>>>
CpChan == <<"channel-0", <<"c","h","a","n","n","e","l","-","0">>>>

Signers == {"AUTH", "M"}
Protos == IF PauseSet = "full" THEN {"CCTP", "HYP", "INT", "IBC"} ELSE {"CCTP", "HYP", "INT"}

ProtoMsgs == { PauseProtocol(s, p) : s \in Signers, p \in Protos } \cup { UnpauseProtocol(s, p) : s \in Signers, p \in Protos }
              \cup { PauseProtocol("AUTH", p) : p \in {"PUNKNOWN", "UNSUPPORTED", "EMPTY", "N2", "LOWER"} }
CCBatches == { <<"CCTP", <<Cp0>>>>, <<"CCTP", <<Cp1>>>>, <<"CCTP", <<Cp0, Cp1>>>>, <<"CCTP", <<Cp0, Cp0>>>>,
               <<"HYP", <<Cp1>>>>, <<"HYP", <<Cp2, Cp1>>>>, <<"INT", <<CpNoble>>>>, <<"CCTP", <<>>>> }
BadBatches == { <<"CCTP", <<Cp1, CpChan>>>>, <<"PUNKNOWN", <<Cp0>>>>, <<"IBC", <<Cp0>>>>, <<"HYP", <<CpNoble>>>> }
CCMsgs == { PauseCC("AUTH", b[1], b[2]) : b \in CCBatches \cup BadBatches } \cup { UnpauseCC("AUTH", b[1], b[2]) : b \in CCBatches \cup BadBatches }
            \cup { PauseCC("M", "CCTP", <<Cp0>>), UnpauseCC("M", "CCTP", <<Cp0>>), PauseCC("M", "CCTP", <<>>), UnpauseCC("M", "CCTP", <<>>),
                   PauseCC("EMPTY", "HYP", <<>>), UnpauseCC("ORB", "CCTP", <<>>), PauseCC("M", "CCTP", <<Cp0, Cp0>>) }
ActMsgs == { PauseAction(s, a) : s \in Signers, a \in {"FEE", "SWAP"} } \cup { UnpauseAction(s, a) : s \in Signers, a \in {"FEE", "SWAP"} }
            \cup { PauseAction("AUTH", a) : a \in {"UNSUPPORTED", "AUNKNOWN", "EMPTY", "N1"} }
ParamVals == IF PauseSet = "full" THEN {0, 2, 64, -1} ELSE {0, 2}
ParamMsgs == { UpdateParams("AUTH", v) : v \in ParamVals } \cup { UpdateParams("M", 7) }
OtherSigners == { PauseProtocol(s, "CCTP") : s \in {"AUTH_UPPER", "AUTH_SPACE", "EMPTY", "MALFORMED", "ORB", "DUST", "OTHER_HRP", "AUTH_MODNAME"} }
                 \cup { PauseAction("AUTH_MODNAME", "FEE"), UpdateParams("AUTH_MODNAME", 9), PauseCC("AUTH_MODNAME", "HYP", <<Cp1>>) }
                 \cup { UpdateParams(s, 9) : s \in {"AUTH_UPPER", "EMPTY", "ORB"} }
                 \cup { [AdminIn("ReplaceDepositForBurn", s) EXCEPT !.fw = FwCCTP(0, "MINT_B", "CALLER_B"), !.who = "x"] : s \in {"AUTH", "M"} }

ProbeFws == { FwCCTP(0, "MINT_A", "NONE"), FwCCTP(1, "MINT_A", "NONE"), FwHYP("T1", 1, "R_A"), FwHYP("T1", 2, "R_A"), FwINT("U") }
Probes == { Xfer(0, "uusdc", 1000, fw, acts) : fw \in ProbeFws, acts \in { <<>>, <<FeeAct(<<Bps(100, "F1")>>)>> } }
\* a fee action WITHOUT entries is a valid payload (nothing to pay): it still CONTAINS the action, so it
\* is refused while the fee action is paused and goes through otherwise
EmptyFeeProbes == { Xfer(0, "uusdc", 1000, fw, <<FeeAct(<<>>)>>) : fw \in { FwINT("U"), FwCCTP(0, "MINT_A", "NONE") } }
PtProbes == { Xfer(0, "uusdc", 1000, [FwINT("U") EXCEPT !.pt = n], <<>>) : n \in {1, 2, 3, 64, 65} }
             \cup { Xfer(0, "uusdc", 1000, [FwCCTP(0, "MINT_A", "NONE") EXCEPT !.pt = 2], <<>>) }

\* payloads naming an identifier that has NO controller on the chain (swap action, IBC as outgoing
\* route): refused - also while that very identifier is paused (both pause messages accept it)
NoCtlProbes == { Xfer(0, "uusdc", 1000, FwINT("U"), <<[id |-> "SWAP", at |-> "FEE", fees |-> <<Bps(100, "F1")>>]>>),
                 Xfer(0, "uusdc", 1000, [FwINT("U") EXCEPT !.pid = "IBC"], <<>>),
                 Xfer(0, "uusdc", 1000, [FwCCTP(0, "MINT_A", "NONE") EXCEPT !.pid = "IBC"], <<>>) }
MCAlphabet == {EnvIn("nextblock", "")} \cup EmptyFeeProbes \cup NoCtlProbes \cup ProtoMsgs \cup CCMsgs \cup ActMsgs \cup ParamMsgs \cup OtherSigners \cup Probes \cup PtProbes \cup {ReimportIn}
SmallAlphabet == { PauseProtocol("AUTH", "CCTP"), UnpauseProtocol("AUTH", "CCTP"), PauseProtocol("AUTH", "INT"),
                   PauseCC("AUTH", "CCTP", <<Cp0>>), PauseCC("AUTH", "CCTP", <<Cp0, Cp1>>), UnpauseCC("AUTH", "CCTP", <<Cp0>>),
                   PauseCC("AUTH", "HYP", <<Cp1>>), PauseCC("AUTH", "CCTP", <<Cp1, CpChan>>), PauseCC("AUTH", "CCTP", <<>>),
                   PauseAction("AUTH", "FEE"), UnpauseAction("AUTH", "FEE"), PauseAction("M", "FEE"),
                   UpdateParams("AUTH", 2), UpdateParams("AUTH", 0), UpdateParams("M", 7), PauseProtocol("M", "CCTP"), ReimportIn,
                   PauseCC("M", "CCTP", <<>>), UnpauseCC("M", "CCTP", <<>>), UnpauseProtocol("M", "CCTP"), UnpauseAction("M", "FEE") }
                 \cup Probes \cup { Xfer(0, "uusdc", 1000, [FwINT("U") EXCEPT !.pt = n], <<>>) : n \in {2, 3} }
                 \cup NoCtlProbes \cup EmptyFeeProbes \cup { PauseAction("AUTH", "SWAP"), PauseProtocol("AUTH", "IBC") }

StepProps == [][ /\ Prop_C08(last') /\ Prop_C09(last') /\ Prop_C10(last') /\ Prop_C18(last')
                 /\ Prop_C01(last') /\ MC_C02(last') /\ Prop_C05(last') /\ Prop_C12(last') /\ Prop_C17(last') ]_vars

\* payloads that do not contain a paused action / destination behave as if nothing were paused (C08/C09)
Unaffected == \A in \in Probes \cup EmptyFeeProbes :
                 (~Blocked(st, <<PidOf(in.fw.pid), CpOf(in.fw)>>) /\ ~ActionPaused(st, in))
                   => Apply(st, in).ok = Apply(NoPause(st), in).ok
Depth == TRUE
\* complete exploration of the module's own state; the ledger is irrelevant to pause logic
View == <<st.pProto, st.pCC, st.pAct, st.maxPT, st.hasParams>>
=============================================================================
