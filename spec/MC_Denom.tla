------------------------------ MODULE MC_Denom ------------------------------
(* Family DENOM (C16): denomination classes (native to the sender, one-hop voucher  *)
(* of the right / another channel / another port, multi-hop, doubled prefix) x base  *)
(* denoms x source channels x amount encodings accepted or refused by ICS-20 x      *)
(* with/without a fee action.  Replayed in instrumented mode, where a pass-through   *)
(* decorator around the wrapped ICS-20 application records what the transfer keeper  *)
(* really credited to the orbiter account (an independent derivation by ibc-go).     *)
EXTENDS OrbiterProps, Inputs
CONSTANT MaxDepth

Dns == {"RET", "SRCNATIVE", "OTHERCH", "SIBLING", "NOBLESIDE", "SRCPORT", "RETPORT", "OTHERPORT", "MULTI", "RETRET", "OTHERRET"}
Bases == {"uusdc", "ustake", "ufoo"}
AmtCs == {"OK", "PLUS", "LEADZERO", "SPACE", "FRAC", "NEG", "EMPTY", "EXP", "MAX256", "OVER256", "HEX", "UNDERSCORE"}
Grid == { [Xfer(c, b, a, FwINT("U"), acts) EXCEPT !.dn = dn, !.amtc = ac] :
            c \in {0, 1}, b \in Bases, a \in {5, 1000}, dn \in Dns, ac \in AmtCs, acts \in {<<>>, <<FeeAct(<<Bps(1000, "F1")>>)>>} }
        \cup { [Xfer(0, "uusdc", 1000, fw, <<>>) EXCEPT !.dn = dn] : dn \in Dns, fw \in { FwCCTP(0, "MINT_A", "NONE"), FwHYP("T1", 1, "R_A") } }
        \cup { [Xfer(0, b, 1000, FwINT("U"), <<>>) EXCEPT !.dn = "L"] : b \in {"ibc/27394FB092D2ECCD56123C74F36E4C1F926001CEADA9CA97EA622B25F41E5EB2", "transfer/channel-7/a/b",
                                                                       "transfer/channel-7/factory/x/sub", "transfer/channel-07/uusdc", "Transfer/channel-7/uusdc",
                                                                       "transfer/channel-7/transfer/uusdc", "transfer/channel-7/UUSDC", "/transfer/channel-7/uusdc"} }
\* an octal spelling whose gap to the decimal reading is paid as a fixed fee to the orbiter account itself:
\* "00012" is 10 for ICS-20 (base 0) - a code that read it as 12 would balance its books with the 2-unit
\* self-fee and record a coin ICS-20 never credited
OctalGap == { [Xfer(0, "uusdc", 12, FwINT("U"), <<FeeAct(<<Fix(2, "ORB")>>)>>) EXCEPT !.amtc = "LEADZERO"],
              [Xfer(0, "ustake", 17, FwINT("U"), <<FeeAct(<<Fix(2, "ORB")>>)>>) EXCEPT !.amtc = "LEADZERO"] }
MCAlphabet == Grid \cup OctalGap
SmallAlphabet == Grid
StepProps == [][ Prop_C16(last') /\ Prop_C01(last') /\ MC_C02(last') /\ Prop_C12(last') ]_vars
Depth == TLCGet("level") <= MaxDepth
View == st
=============================================================================
