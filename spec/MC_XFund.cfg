SPECIFICATION Spec
CONSTANT Alphabet <- MCAlphabet
CONSTANT SwapRegistered = FALSE
CONSTANT MaxDepth = 4
PROPERTY StepProps
INVARIANT LedgerConsistent
CONSTRAINT Depth
VIEW View
CHECK_DEADLOCK FALSE
