SPECIFICATION Spec
CONSTANT Alphabet <- MCAlphabet
CONSTANT SwapRegistered = FALSE
CONSTANT MaxDepth = 1
CONSTANT Ks = {31, 32, 63, 64, 65, 128, 255, 256}
PROPERTY StepProps
CONSTRAINT Depth
VIEW View
CHECK_DEADLOCK FALSE
