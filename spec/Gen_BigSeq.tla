----------------------------- MODULE Gen_BigSeq -----------------------------
(* Sequences of big-amount transfers whose CUMULATIVE traffic exceeds 2^256-1 (the  *)
(* coins return to the escrow in between, as when the recipient sends them out over  *)
(* IBC again): statistics totals reach the range limit of sdkmath.Int.  The receive  *)
(* path must still return an acknowledgement (C14) and the fee arithmetic must stay  *)
(* exact (C04).                                                                      *)
EXTENDS MC_FeesBig, Json
CONSTANT GenDepth, GenSet
VARIABLES hist, done
Back == EnvIn("bigback", "")
T(AA, fs) == [Xfer(0, "ubig", 0, FwINT("U"), fs) EXCEPT !.amtc = "DIGITS", !.amtd = AA]
P255 == Pow2Around(255)[2]
Fee == <<FeeAct(<<EB(250, "F1")>>)>>
Dusty == EnvIn("bigdust", "")       \* 2^64 units of the big denom deposited on the orbiter account
Seqs == { << Dusty, T(Pow2Around(64)[3], <<>>), Dusty, Dusty, T(Pow2Around(128)[2], Fee), Back, Dusty, T(<<1>>, <<>>) >>, << T(P255, <<>>), Back, T(P255, <<>>), Back, T(P255, <<>>) >>,
          << T(BMax256, <<>>), Back, T(<<1>>, <<>>), Back, T(BMax256, <<>>) >>,
          << T(P255, Fee), Back, T(P255, Fee), Back, T(Pow2Around(64)[2], Fee) >>,
          << T(Pow2Around(255)[1], <<>>), Back, T(Pow2Around(255)[1], <<>>), Back, T(<<3>>, <<>>), Back, T(P255, <<>>) >> }
GenInit == st = InitSt /\ last = NullStep /\ hist = <<>> /\ done = FALSE
GenNext == \/ /\ hist = <<>> /\ ~done /\ \E q \in Seqs : hist' = q /\ UNCHANGED <<st, last, done>>
           \/ /\ hist # <<>> /\ ~done /\ done' = TRUE /\ UNCHANGED <<st, last, hist>>
GenSpec == GenInit /\ [][GenNext]_<<st, last, hist, done>>
SimSpec == GenSpec
Emit == done => PrintT(<<"BEHAVIOUR", ToJson(hist)>>)
=============================================================================
