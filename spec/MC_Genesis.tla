----------------------------- MODULE MC_Genesis -----------------------------
(* Family GENESIS (C17): genesis documents.  Every list of the document is varied  *)
(* over valid, repeated, nil, out-of-range and boundary entries (one dimension at  *)
(* a time, plus combinations of valid values); each document is validated and, on  *)
(* a cleared module store, initialised by the real module.  "Accepted by           *)
(* validation => initialises without error" is Prop_C17b; re-import inside         *)
(* histories (export -> validate -> init -> export) is the input `reimport` of     *)
(* the other families.                                                             *)
EXTENDS OrbiterProps, Inputs
CONSTANT MaxDepth

Lists2(S) == {<<>>} \cup { <<a>> : a \in S } \cup { <<a, b>> : a, b \in S }
CC(p, cs) == [p |-> p, cp |-> FoldLeft(LAMBDA a, b : a \o b, "", cs), chars |-> cs]
Rep(c, n) == [i \in 1..n |-> c]
PPs  == Lists2({"CCTP", "HYP", "INT", "IBC", "UNSUPPORTED", "P99"})
PCCs == Lists2({ CC("CCTP", <<"0">>), CC("CCTP", <<"1">>), CC("CCTP", <<"0", "1">>), CC("HYP", <<"1">>), CC("INT", <<"n","o","b","l","e">>),
                 CC("NIL", <<>>), CC("IBC", <<"c","h","a","n","n","e","l","-","0">>), CC("CCTP", Rep("1", 33)), CC("CCTP", <<>>),
                 CC("UNSUPPORTED", <<"0">>), CC("INT", Rep("x", 32)) })
PAs  == Lists2({"FEE", "SWAP", "UNSUPPORTED", "A7"})
AE(sp, sc, dp, dc, d, i, o) == [sp |-> sp, sc |-> sc, dp |-> dp, dc |-> dc, denom |-> d, in |-> i, out |-> o]
AmtEs == { AE("IBC", "channel-0", "CCTP", "0", "uusdc", 10, 9), AE("IBC", "channel-0", "CCTP", "0", "uusdc", 5, 5),
           AE("IBC", "channel-1", "INT", "noble", "ustake", 7, 0), AE("CCTP", "1", "HYP", "2", "uusdc", 0, 3),
           AE("IBC", "channel-0", "CCTP", "0", "uusdc", 0, 0), AE("IBC", "channel-0", "CCTP", "0", "uusdc", -1, 5),
           AE("IBC", "channel-0", "CCTP", "0", "", 1, 1), AE("NIL", "", "CCTP", "0", "uusdc", 1, 1),
           AE("IBC", "channel-0", "NIL", "", "uusdc", 1, 1), AE("IBC", "bad", "CCTP", "0", "uusdc", 1, 1),
           AE("IBC", "channel-0", "UNSUPPORTED", "0", "uusdc", 1, 1),
           AE("IBC", "channel-0", "INT", "noble:grand-1", "uusdc", 2, 1), AE("INT", "a:b:c", "INT", "x", "ustake", 3, 3),
           \* totals at the maximum of the type (BIG stands for 2^256-1): the next transfer on the route cannot be added
           AE("IBC", "channel-0", "CCTP", "0", "uusdc", BIG, 7), AE("IBC", "channel-0", "CCTP", "0", "uusdc", 9, BIG),
           AE("IBC", "channel-0", "HYP", "1", "uusdc", BIG, BIG) }
CE(sp, sc, dp, dc, n) == [sp |-> sp, sc |-> sc, dp |-> dp, dc |-> dc, n |-> n]
CntEs == { CE("IBC", "channel-0", "CCTP", "0", 3), CE("IBC", "channel-0", "CCTP", "0", 1), CE("IBC", "channel-1", "INT", "noble", 2),
           CE("IBC", "channel-0", "CCTP", "0", 0), CE("NIL", "", "CCTP", "0", 1), CE("IBC", "channel-0", "HYP", "bad", 1),
           CE("IBC", "channel-1", "INT", "noble:grand-1", 4),
           \* counts at 2^64-1 (BIG): the next transfer on the route cannot be counted
           CE("IBC", "channel-0", "CCTP", "0", BIG), CE("IBC", "channel-0", "HYP", "1", BIG) }

RECURSIVE DigitsOfG(_)
DigitsOfG(n) == IF n < 10 THEN <<ToString(n)>> ELSE Append(DigitsOfG(n \div 10), ToString(n % 10))
\* more paused pairs than one default page (100) - in total AND under one protocol: 101 fresh CCTP
\* domains (1001..1101), then Hyperlane 1 and 2 (last in key order)
ManyPairs == [i \in 1..103 |-> IF i <= 101 THEN CC("CCTP", DigitsOfG(1000 + i)) ELSE CC("HYP", <<ToString(i - 101)>>)]
Docs == { [DefG EXCEPT !.pcc = ManyPairs] } \cup { [DefG EXCEPT !.pp = x] : x \in PPs } \cup { [DefG EXCEPT !.pcc = x] : x \in PCCs } \cup { [DefG EXCEPT !.pa = x] : x \in PAs }
        \cup { [DefG EXCEPT !.amts = x] : x \in Lists2(AmtEs) } \cup { [DefG EXCEPT !.cnts = x] : x \in Lists2(CntEs) }
        \cup { [DefG EXCEPT !.params = v] : v \in {0, 1, 64, -1} }
        \cup { [pp |-> <<"CCTP", "INT">>, pcc |-> <<CC("HYP", <<"1">>), CC("CCTP", <<"0">>)>>, pa |-> <<"FEE">>,
                amts |-> <<AE("IBC", "channel-0", "CCTP", "0", "uusdc", 10, 9), AE("IBC", "channel-1", "INT", "noble", "ustake", 7, 0)>>,
                cnts |-> <<CE("IBC", "channel-0", "CCTP", "0", 3)>>, params |-> 64],
               \* a protocol paused together with one of its own counterparties (both must survive initialisation)
               [DefG EXCEPT !.pp = <<"CCTP">>, !.pcc = <<CC("CCTP", <<"0">>), CC("HYP", <<"1">>)>>],
               [DefG EXCEPT !.pp = <<"HYP", "INT">>, !.pcc = <<CC("HYP", <<"1">>), CC("HYP", <<"2">>), CC("INT", <<"n","o","b","l","e">>)>>, !.pa = <<"FEE", "SWAP">>] }
Probes == { Xfer(0, "uusdc", 1000, fw, <<FeeAct(<<Bps(100, "F1")>>)>>) : fw \in { FwCCTP(0, "MINT_A", "NONE"), FwHYP("T1", 1, "R_A"), FwINT("U") } }
MCAlphabet == { GenDocIn(g) : g \in Docs } \cup Probes \cup {ReimportIn}
SmallAlphabet == MCAlphabet

StepProps == [][ Prop_C17c(last') /\ Prop_C17b(last') /\ Prop_C17(last') /\ Prop_C08(last') /\ Prop_C09(last') /\ Prop_C12(last') /\ Prop_C18(last') ]_vars
Depth == TLCGet("level") <= MaxDepth
View == st
=============================================================================
