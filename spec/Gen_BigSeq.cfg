SPECIFICATION GenSpec
CONSTANT Alphabet <- MCAlphabet
CONSTANT SwapRegistered = FALSE
CONSTANT MaxDepth = 1
CONSTANT Ks = {64}
CONSTANT GenDepth = 1
CONSTANT GenSet = "full"
INVARIANT Emit
CHECK_DEADLOCK FALSE
