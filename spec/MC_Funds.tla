------------------------------ MODULE MC_Funds ------------------------------
(* Family FUNDS (C01, C02, C11, C12 and the conformance of the whole pipeline):   *)
(* transfers on all three routes with fees, refusals of every kind, direct        *)
(* deposits, pauses and environment changes, interleaved arbitrarily.             *)
EXTENDS OrbiterProps, Inputs
CONSTANT MaxDepth

Fws == { FwCCTP(0, "MINT_A", "NONE"), FwCCTP(1, "MINT_B", "CALLER_A"), FwCCTP(0, "MINT_A", "CALLER_ZERO"), FwCCTP(2, "MINT_A", "NONE"),
         FwHYP("T1", 1, "R_A"), FwHYP("T1", 3, "R_A"), FwHYP("T2", 2, "R_B"),
         FwINT("U"), FwINT("ORB"), FwINT("ORB_UPPER"), FwINT("DUST"),
         \* a paying Hyperlane hook (interchain gas paymaster: 3 ustake, max fee 5 ustake) - see KnownDeviationIGP
         [FwHYP("T1", 1, "R_A") EXCEPT !.hook = "H_IGP", !.gas = 3, !.maxfee = 5, !.mfd = "ustake"],
         \* a max fee in the TRANSFERRED denomination with a hook that charges nothing: an upper bound only -
         \* the whole post-action coin is still handed to the route
         [FwHYP("T1", 1, "R_A") EXCEPT !.maxfee = 5, !.mfd = "uusdc"], [FwHYP("T2", 2, "R_B") EXCEPT !.maxfee = 5, !.mfd = "ustake"] }
ActLists == { <<>>, <<FeeAct(<<Bps(100, "F1")>>)>>, <<FeeAct(<<Fix(3, "F1"), Bps(5000, "F2")>>)>>,
              <<FeeAct(<<Bps(100, "ORB")>>)>> }

Transfers == { Xfer(c, b, a, fw, acts) : c \in {0, 1}, b \in {"uusdc", "ustake"}, a \in {7, 10000}, fw \in Fws, acts \in ActLists }
BigTransfer == { Xfer(0, "uusdc", 160000, FwCCTP(0, "MINT_A", "NONE"), <<>>) }      \* above the CCTP burn limit
Others == { Pkt(0, "ORB_UPPER", "RET", "uusdc", 9, "NONE"), Pkt(0, "U", "RET", "uusdc", 9, "NONE"),
            Pkt(0, "ORB", "RET", "uusdc", 9, "NONE"), Pkt(0, "ORB", "SRCNATIVE", "uatom", 9, "NONE"),
            Pkt(1, "ORB_UPPER", "SRCNATIVE", "uatom", 9, "NONE"), Pkt(0, "INVALID", "RET", "ustake", 9, "NONE"),
            Pkt(0, "DUST", "RET", "ustake", 9, "NONE") }
\* memos without a usable "orbiter" root key, addressed to the orbiter account: must be refused, never
\* handed to plain ICS-20 (which would credit the orbiter account)
TplI == Xfer(0, "ustake", 9, FwINT("U"), <<>>)
NoOrbiterKey == { [TplI EXCEPT !.mk = "MUT", !.aid = a, !.op = m] : a \in {"orbiter"}, m \in {"null", "absent", "rename", "string"} }
                \cup { [TplI EXCEPT !.mk = "MUT", !.aid = "root", !.op = m] : m \in {"emptyobj", "emptyarr", "null"} }
Deposits == { DepositIn("uusdc", 5), DepositIn("ustake", 5) }
Admins == { PauseProtocol("AUTH", "CCTP"), UnpauseProtocol("AUTH", "CCTP"), PauseCC("AUTH", "HYP", <<Cp1>>),
            PauseAction("AUTH", "FEE"), UnpauseAction("AUTH", "FEE"), PauseProtocol("M", "INT") }
Envs == { EnvIn("nextblock", ""), EnvIn("ftfPause", ""), EnvIn("ftfUnpause", ""), EnvIn("block", "F1"), EnvIn("block", "U") }

MCAlphabet == Transfers \cup BigTransfer \cup Others \cup NoOrbiterKey \cup Deposits \cup Admins \cup Envs \cup {ReimportIn}

StepProps == [][ /\ Prop_C01(last') /\ MC_C02(last') /\ Prop_C03(last') /\ Prop_C04(last') /\ Prop_C05(last')
                 /\ Prop_C08(last') /\ Prop_C09(last') /\ Prop_C10(last') /\ MC_C11(last') /\ Prop_C12(last')
                 /\ Prop_C17(last') /\ Prop_C18(last') ]_vars

\* design invariants on states
LedgerConsistent == \A d \in Denom : MapThenSumSet(LAMBDA a : st.bal[a][d], Acct) = st.supply[d]
NonNegative == \A a \in Acct, d \in Denom : st.bal[a][d] >= 0
StatsKeysUnique == /\ \A e, f \in st.amt : AmtKeyOf(e) = AmtKeyOf(f) => e = f
                   /\ \A e, f \in st.cnt : CntKeyOf(e) = CntKeyOf(f) => e = f
\* between packets the orbiter account holds only what was deposited directly (never delivered funds)
FeesCollectedIdentity == \A e \in st.amt : e.in >= e.out

Depth == TLCGet("level") <= MaxDepth
View == st
=============================================================================
