------------------------------- MODULE Inputs -------------------------------
(* Constructors for the abstract input records (the alphabet TLC enumerates).   *)
(* Every record has the full field set so that inputs printed as JSON by the    *)
(* generation configs and inputs read back from traces have one shape.          *)
EXTENDS Integers, Sequences

DefFw == [pid |-> "INT", at |-> "INT", dom |-> 0, mint |-> "NONE", caller |-> "NONE", tok |-> "NONE",
          rcp |-> "NONE", hook |-> "NONE", gas |-> 0, maxfee |-> 0, mfd |-> "uusdc", meta |-> "NONE", to |-> "U", pt |-> 0]
DefG == [pp |-> <<>>, pcc |-> <<>>, pa |-> <<>>, amts |-> <<>>, cnts |-> <<>>, params |-> 0]
DefQ == [kind |-> "", by |-> "", pid |-> "", limit |-> 0, walk |-> "", reverse |-> FALSE, countTotal |-> FALSE,
         sp |-> "", sc |-> "", dp |-> "", dc |-> "", denom |-> ""]
DefIn == [t |-> "", chan |-> 0, rcv |-> "", dn |-> "", base |-> "", amt |-> 0, amtd |-> <<>>, amtc |-> "OK", mk |-> "",
          fw |-> DefFw, acts |-> <<>>, raw |-> "", faults |-> <<>>, rpc |-> "", signer |-> "", pid |-> "",
          cps |-> <<>>, cpc |-> <<>>, aid |-> "", v |-> 0, denom |-> "", op |-> "", who |-> "",
          ids |-> <<>>, g |-> DefG, q |-> DefQ, disc |-> FALSE]

\* the same input executed in a branch that is thrown away afterwards (a transaction whose later
\* message fails, a gas simulation, a CheckTx): whatever happens inside, no state survives
Discarded(in) == [in EXCEPT !.disc = TRUE]

FwCCTP(dom, mint, caller) == [DefFw EXCEPT !.pid = "CCTP", !.at = "CCTP", !.dom = dom, !.mint = mint, !.caller = caller, !.to = "NONE"]
FwHYP(tok, dom, rcp)      == [DefFw EXCEPT !.pid = "HYP", !.at = "HYP", !.tok = tok, !.dom = dom, !.rcp = rcp, !.to = "NONE"]
FwINT(to)                 == [DefFw EXCEPT !.to = to]

Bps(v, to) == [k |-> "bps", v |-> v, vc |-> "OK", to |-> to]
Fix(v, to) == [k |-> "fix", v |-> v, vc |-> "OK", to |-> to]
FeeAct(fees) == [id |-> "FEE", at |-> "FEE", fees |-> fees]
SwapAct      == [id |-> "SWAP", at |-> "TEST", fees |-> <<>>]
SwapAct3     == [id |-> "SWAP", at |-> "TEST3", fees |-> <<>>]     \* the same controller returning 3x the units

\* an orbiter transfer: returning native denom, canonical receiver
Xfer(chan, base, amt, fw, acts) ==
  [DefIn EXCEPT !.t = "recv", !.chan = chan, !.rcv = "ORB", !.dn = "RET", !.base = base, !.amt = amt,
                !.mk = "PAYLOAD", !.fw = fw, !.acts = acts]
Pkt(chan, rcv, dn, base, amt, mk) ==
  [DefIn EXCEPT !.t = "recv", !.chan = chan, !.rcv = rcv, !.dn = dn, !.base = base, !.amt = amt, !.mk = mk]

AdminIn(rpc, signer) == [DefIn EXCEPT !.t = "admin", !.rpc = rpc, !.signer = signer]
PauseProtocol(s, p)   == [AdminIn("PauseProtocol", s) EXCEPT !.pid = p]
UnpauseProtocol(s, p) == [AdminIn("UnpauseProtocol", s) EXCEPT !.pid = p]
\* cps = sequence of <<string, chars>> pairs
PauseCC(s, p, cps)   == [AdminIn("PauseCrossChains", s) EXCEPT !.pid = p, !.cps = [i \in DOMAIN cps |-> cps[i][1]], !.cpc = [i \in DOMAIN cps |-> cps[i][2]]]
UnpauseCC(s, p, cps) == [AdminIn("UnpauseCrossChains", s) EXCEPT !.pid = p, !.cps = [i \in DOMAIN cps |-> cps[i][1]], !.cpc = [i \in DOMAIN cps |-> cps[i][2]]]
PauseAction(s, a)   == [AdminIn("PauseAction", s) EXCEPT !.aid = a]
UnpauseAction(s, a) == [AdminIn("UnpauseAction", s) EXCEPT !.aid = a]
UpdateParams(s, v)  == [AdminIn("UpdateParams", s) EXCEPT !.v = v]

DepositIn(denom, amt) == [DefIn EXCEPT !.t = "deposit", !.denom = denom, !.amt = amt, !.who = "M"]
EnvIn(op, who)        == [DefIn EXCEPT !.t = "env", !.op = op, !.who = who]
ReimportIn            == [DefIn EXCEPT !.t = "reimport"]

\* identifier probes (C20): ids = sequence of [cp, chars, dom]
IdentIn(pid, ids) == [DefIn EXCEPT !.t = "ident", !.pid = pid, !.ids = ids]
GenDocIn(g) == [DefIn EXCEPT !.t = "gendoc", !.g = g]
QueryIn(q) == [DefIn EXCEPT !.t = "query", !.q = q]

\* packets Noble sent: acknowledgement / timeout (dn = "NATIVE" | "VOUCHER" | "RAWDATA")
AckIn(op, chan, dn, base, amt, who) == [DefIn EXCEPT !.t = "ackpkt", !.op = op, !.chan = chan, !.dn = dn, !.base = base, !.amt = amt, !.who = who, !.mk = "NONE"]
TimeoutIn(chan, dn, base, amt, who) == [DefIn EXCEPT !.t = "timeout", !.chan = chan, !.dn = dn, !.base = base, !.amt = amt, !.who = who, !.mk = "NONE"]

\* common counterparty spellings with their characters
Cp0 == <<"0", <<"0">>>>
Cp1 == <<"1", <<"1">>>>
Cp2 == <<"2", <<"2">>>>
Cp3 == <<"3", <<"3">>>>
CpNoble == <<"noble", <<"n", "o", "b", "l", "e">>>>
=============================================================================
