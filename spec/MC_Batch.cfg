SPECIFICATION Spec
CONSTANT Alphabet <- MCAlphabet
CONSTANT SwapRegistered = FALSE
CONSTANT MaxDepth = 2
PROPERTY StepProps
CONSTRAINT Depth
VIEW View
CHECK_DEADLOCK FALSE
