------------------------------ MODULE MC_Parse ------------------------------
(* Family PARSE (C14): the structured mutation space                              *)
(*     templates x every JSON path of the template x mutation                      *)
(* enumerated completely by TLC, plus seeded-random representatives of the         *)
(* unstructured classes (arbitrary bytes as packet data, ICS-20 JSON with          *)
(* arbitrary memo bytes, JSON-ish documents, random values under the real field    *)
(* names, extreme amounts and denoms).  Every document goes through the full       *)
(* application stack under recover().                                              *)
EXTENDS OrbiterProps, Inputs
CONSTANT MaxDepth, ParseSet, NRandom

T_CCTP == Xfer(0, "uusdc", 1000, FwCCTP(0, "MINT_A", "CALLER_A"), <<FeeAct(<<Bps(100, "F1"), Fix(3, "F2")>>)>>)
T_HYP  == Xfer(0, "uusdc", 1000, [FwHYP("T1", 1, "R_A") EXCEPT !.hook = "H_NOOP", !.gas = 77, !.maxfee = 5, !.meta = "0xAB"],
               <<FeeAct(<<Bps(100, "F1"), Fix(3, "F2")>>)>>)
T_INT  == Xfer(0, "ustake", 1000, FwINT("U"), <<>>)
T_INTF == Xfer(1, "uusdc", 1000, FwINT("U"), <<FeeAct(<<Bps(100, "F1"), Fix(3, "F2")>>)>>)

CommonPaths == {"root", "orbiter", FW, FW \o ".protocol_id", FW \o ".attributes", FW \o ".attributes.@type", FW \o ".passthrough_payload"}
ActionPaths == {PA, A0, A0 \o ".id", A0 \o ".attributes", A0 \o ".attributes.@type", FI, FI \o ".0", FI \o ".1",
                FI \o ".0.recipient", FI \o ".0.basis_points", FI \o ".0.basis_points.value", FI \o ".1.amount", FI \o ".1.amount.value", FI \o ".1.recipient"}
AttrPaths(at) == { FW \o ".attributes." \o f : f \in
   CASE at = "CCTP" -> {"destination_domain", "mint_recipient", "destination_caller"}
     [] at = "HYP" -> {"token_id", "destination_domain", "recipient", "custom_hook_id", "custom_hook_metadata", "gas_limit",
                       "max_fee", "max_fee.denom", "max_fee.amount"}
     [] OTHER -> {"recipient"} }
PathsFor(t) == CommonPaths \cup AttrPaths(t.fw.at) \cup (IF t.acts = <<>> THEN {PA} ELSE ActionPaths)
               \cup (IF t.acts = <<>> THEN {"x", "orbiter.x", FW \o ".x", FW \o ".attributes.x"} ELSE UnknownPaths)
Muts == (IF ParseSet = "full" THEN Mutations ELSE Mutations \ {"longstr", "deepobj", "dupsame", "numstr"}) \ {"rename", "unknown3", "trailgarbage", "trailobj", "trailbrace", "leadgarbage", "tworoots"}
RenameGrid == { [t EXCEPT !.mk = "MUT", !.aid = p, !.op = "rename"] : t \in {T_CCTP, T_INT}, p \in {"orbiter", FW, FW \o ".attributes"} }
              \cup { [T_CCTP EXCEPT !.mk = "MUT", !.aid = PA, !.op = "rename"] }      \* (T_INT carries no pre_actions key)
\* three unknown fields at once in one object (a decoder that names "any" of them in its error)
Unknown3Grid == { [t EXCEPT !.mk = "MUT", !.aid = p, !.op = "unknown3"] : t \in {T_CCTP, T_INT},
                    p \in {"orbiter", FW, FW \o ".attributes"} }
                \cup { [T_CCTP EXCEPT !.mk = "MUT", !.aid = p, !.op = "unknown3"] : p \in {A0, A0 \o ".attributes"} }
Templates == IF ParseSet = "full" THEN {T_CCTP, T_HYP, T_INT, T_INTF} ELSE {T_CCTP, T_HYP, T_INT}
MutGrid == UNION { { [t EXCEPT !.mk = "MUT", !.aid = p, !.op = m] : p \in PathsFor(t), m \in Muts } : t \in Templates }

RandomGrid == { [Pkt(0, "ORB", "RET", "uusdc", 9, "RANDOM") EXCEPT !.op = c, !.v = n] : c \in {"BYTES", "ASCII", "JSONISH", "ORBJSON", "ORBFIELDS"}, n \in 1..NRandom }
              \cup { [Pkt(0, "ORB", "RAWDATA", "uusdc", 9, "RANDOM") EXCEPT !.op = c, !.v = n] : c \in {"BYTES", "ASCII", "JSONISH"}, n \in 1..NRandom }
              \cup { [Pkt(0, "U", "RET", "ustake", 9, "RANDOM") EXCEPT !.op = c, !.v = n] : c \in {"BYTES", "ORBFIELDS"}, n \in 1..NRandom }
Extremes == { [Xfer(0, b, 1000, FwINT("U"), <<>>) EXCEPT !.amtc = c] : b \in {"uusdc", "ustake"}, c \in {"MAX256", "OVER256", "NEG", "EMPTY", "EXP", "FRAC", "SPACE", "HEX", "UNDERSCORE", "PLUS", "LEADZERO"} }
            \cup { [Xfer(0, "uusdc", 0, FwINT("U"), <<>>) EXCEPT !.amtc = "OK"] }
            \cup { [Xfer(0, b, 1000, FwINT("U"), <<>>) EXCEPT !.dn = "L"] : b \in {"", "/", "a", "transfer/", "transfer/channel-7/", "transfer/channel-7//", "ibc/", "1abc", "uusdc/"} }
            \cup { Xfer(0, "uusdc", 1000, [FwHYP("T1", 1, "R_A") EXCEPT !.maxfee = -5], <<>>),
                   Xfer(0, "uusdc", 1000, [FwHYP("T1", 1, "R_A") EXCEPT !.gas = -5], <<>>),
                   Xfer(0, "uusdc", 1000, [FwHYP("SHORT", 1, "R_A") EXCEPT !.gas = 1], <<>>),
                   Xfer(0, "uusdc", 1000, [FwHYP("T1", 1, "LONG33") EXCEPT !.gas = 1], <<>>),
                   Xfer(0, "uusdc", 1000, FwCCTP(0, "SHORT", "NONE"), <<>>),
                   Xfer(0, "uusdc", 1000, FwCCTP(0, "LONG33", "SHORT"), <<>>),
                   Xfer(0, "uusdc", 1000, FwCCTP(0, "MINT_A", "LONG33"), <<>>),
                   Xfer(0, "uusdc", 1000, FwINT("U"), <<[id |-> "NULL", at |-> "FEE", fees |-> <<>>]>>),
                   Xfer(0, "uusdc", 1000, FwINT("U"), <<FeeAct(<<[k |-> "null", v |-> 0, vc |-> "OK", to |-> "F1"]>>)>>),
                   Xfer(0, "uusdc", 1000, FwINT("U"), <<FeeAct(<<Bps(10000, "F1"), [k |-> "fix", v |-> 5, vc |-> "BIG256", to |-> "F1"]>>)>>),
                   Xfer(0, "uusdc", 1000, FwINT("U"), <<FeeAct(<<[k |-> "fix", v |-> 5, vc |-> "BIG256", to |-> "F1"], [k |-> "fix", v |-> 5, vc |-> "BIG256", to |-> "F2"]>>)>>),
                   Xfer(0, "uusdc", 1000, FwINT("U"), <<FeeAct(<<[k |-> "fix", v |-> 5, vc |-> "OVER256", to |-> "F1"]>>)>>) }
            \* numbers with white space around them (a validator that trims and a consumer that does not)
            \cup { Xfer(0, "uusdc", 1000, FwINT("U"), <<FeeAct(<<[k |-> "fix", v |-> 5, vc |-> c, to |-> "F1"]>>)>>) : c \in {"SPACE", "TRAILSP", "NEWLINE", "TAB"} }
            \cup { [Xfer(0, "uusdc", 1000, FwINT("U"), <<>>) EXCEPT !.amtc = "SPACE"] }

\* data before / after the root object: the memo is not a single JSON object
TrailGrid == { [t EXCEPT !.mk = "MUT", !.aid = "root", !.op = m] : t \in Templates, m \in {"trailgarbage", "trailobj", "trailbrace", "leadgarbage", "tworoots"} }
MCAlphabet == MutGrid \cup RenameGrid \cup Unknown3Grid \cup TrailGrid \cup RandomGrid \cup Extremes
SmallAlphabet == MCAlphabet
StepProps == [][ Prop_C14(last') /\ Prop_C15(last') /\ Prop_C01(last') /\ Prop_C03(last') ]_vars
Depth == TLCGet("level") <= MaxDepth
View == st
=============================================================================
