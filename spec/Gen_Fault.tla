------------------------------ MODULE Gen_Fault ------------------------------
(* Generation for family FAULT: every input of the alphabet once from the clean    *)
(* initial state and once after a direct deposit (coins on the orbiter account).   *)
EXTENDS MC_Fault, Json
CONSTANT GenDepth, GenSet
VARIABLES hist, done

Prefix == IF GenSet = "dust" THEN <<DepositIn("uusdc", 5)>> ELSE <<>>
StartSt == IF GenSet = "dust" THEN Apply(InitSt, DepositIn("uusdc", 5)).st ELSE InitSt

GenInit == st = StartSt /\ last = NullStep /\ hist = Prefix /\ done = FALSE
GenNext == \/ /\ Len(hist) < Len(Prefix) + GenDepth
              /\ \E in \in MCAlphabet : st' = Apply(st, in).st /\ hist' = Append(hist, in)
              /\ UNCHANGED <<last, done>>
           \/ /\ Len(hist) = Len(Prefix) + GenDepth /\ ~done /\ done' = TRUE /\ UNCHANGED <<st, last, hist>>
GenSpec == GenInit /\ [][GenNext]_<<st, last, hist, done>>
SimSpec == GenSpec
Emit == done => PrintT(<<"BEHAVIOUR", ToJson(hist)>>)
=============================================================================
