SPECIFICATION Spec
CONSTANT Alphabet <- MCAlphabet
CONSTANT SwapRegistered = FALSE
CONSTANT MaxDepth = 2
CONSTANT StatSet = "small"
PROPERTY StepProps
CONSTRAINT Depth
VIEW View
CHECK_DEADLOCK FALSE
