SPECIFICATION GenSpec
CONSTANT Alphabet <- MCAlphabet
CONSTANT SwapRegistered = FALSE
CONSTANT MaxDepth = 2
CONSTANT FaultSet = "single"
CONSTANT GenDepth = 1
CONSTANT GenSet = "clean"
INVARIANT Emit
CHECK_DEADLOCK FALSE
