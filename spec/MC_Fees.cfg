SPECIFICATION Spec
CONSTANT Alphabet <- MCAlphabet
CONSTANT SwapRegistered = FALSE
CONSTANT MaxDepth = 1
CONSTANT FeeSet = "small"
CONSTANT Amounts = {10000}
PROPERTY StepProps
CONSTRAINT Depth
VIEW View
CHECK_DEADLOCK FALSE
