SPECIFICATION GenSpec
CONSTANT Alphabet <- MCAlphabet
CONSTANT SwapRegistered = FALSE
CONSTANT MaxDepth = 1
CONSTANT ParseSet = "small"
CONSTANT NRandom = 20
CONSTANT GenDepth = 1
CONSTANT GenSet = "full"
INVARIANT Emit
CHECK_DEADLOCK FALSE
