SPECIFICATION GenSpec
CONSTANT Alphabet <- MCAlphabet
CONSTANT SwapRegistered = FALSE
CONSTANT MaxDepth = 0
CONSTANT PauseSet = "full"
CONSTANT GenDepth = 6
CONSTANT GenSet = "full"
CONSTANT TourMode = "none"
INVARIANT Emit
CHECK_DEADLOCK FALSE
