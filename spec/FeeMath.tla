------------------------------- MODULE FeeMath -------------------------------
(* Unbounded arithmetic lemmas behind C04 / C02, discharged symbolically by Apalache (SMT over      *)
(* mathematical integers, no bound on the amount): TLC decides the same operators on grids and on   *)
(* BigNat digit sequences; this module removes the bound on the SPECIFICATION side.                 *)
(* FeeOf here is textually the bps branch of Orbiter!FeeOf.                                          *)
EXTENDS Integers

BPSNorm == 10000

VARIABLES
  \* @type: Int;
  amt,
  \* @type: Int;
  amt2,
  \* @type: Int;
  bpsA,
  \* @type: Int;
  bpsB,
  \* @type: Int;
  fixC

FeeBps(a, b) == (a * b) \div BPSNorm

Init ==
  /\ amt \in Nat /\ amt2 \in Nat /\ amt <= amt2
  /\ bpsA \in 1..BPSNorm /\ bpsB \in 1..BPSNorm
  /\ fixC \in Nat /\ fixC >= 1

Next == UNCHANGED <<amt, amt2, bpsA, bpsB, fixC>>

\* a basis-point fee never exceeds the amount, is exact, and is monotone in the amount
FeeBounded   == FeeBps(amt, bpsA) <= amt /\ FeeBps(amt, bpsA) >= 0
FeeExact     == /\ BPSNorm * FeeBps(amt, bpsA) <= amt * bpsA
                /\ amt * bpsA < BPSNorm * (FeeBps(amt, bpsA) + 1)
FeeMonotone  == FeeBps(amt, bpsA) <= FeeBps(amt2, bpsA)
FeeZeroIff   == (FeeBps(amt, bpsA) = 0) <=> (amt * bpsA < BPSNorm)
\* when the total is strictly below the amount the forwarded remainder is positive and value is conserved
Total == FeeBps(amt, bpsA) + FeeBps(amt, bpsB) + fixC
Conserved    == Total < amt => (amt - Total >= 1 /\ (amt - Total) + Total = amt)
\* two bps entries can reach the whole amount (so the "strictly below" refusal is reachable) only when bpsA + bpsB >= 10000
TwoBpsBelow  == bpsA + bpsB < BPSNorm => FeeBps(amt, bpsA) + FeeBps(amt, bpsB) <= amt
Lemmas == FeeBounded /\ FeeExact /\ FeeMonotone /\ FeeZeroIff /\ Conserved /\ TwoBpsBelow
=============================================================================
