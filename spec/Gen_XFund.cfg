SPECIFICATION GenSpec
CONSTANT Alphabet <- MCAlphabet
CONSTANT SwapRegistered = FALSE
CONSTANT MaxDepth = 3
CONSTANT GenDepth = 3
CONSTANT GenSet = "full"
INVARIANT Emit
CHECK_DEADLOCK FALSE
