SPECIFICATION Spec
CONSTANT Alphabet <- MCAlphabet
CONSTANT SwapRegistered = FALSE
CONSTANT MaxDepth = 3
PROPERTY StepProps
INVARIANT LedgerConsistent NonNegative StatsKeysUnique FeesCollectedIdentity
CONSTRAINT Depth
VIEW View
CHECK_DEADLOCK FALSE
