SPECIFICATION GenSpec
CONSTANT Alphabet <- MCAlphabet
CONSTANT SwapRegistered = TRUE
CONSTANT MaxDepth = 1
CONSTANT GenDepth = 4
CONSTANT GenSet = "full"
INVARIANT Emit
CHECK_DEADLOCK FALSE
