SPECIFICATION Spec
CONSTANT Alphabet <- MCAlphabet
CONSTANT SwapRegistered = TRUE
CONSTANT MaxDepth = 1
PROPERTY P01 P02 P05 P06 P09 P12
CONSTRAINT Depth
VIEW View
CHECK_DEADLOCK FALSE
