------------------------------ MODULE Gen_Stats ------------------------------
(* Generation for family STATS: a ledger-building prefix (chosen by GenSet) followed *)
(* by the complete query battery; queries are read-only, so one behaviour carries    *)
(* all of them.  "random": a seeded random prefix of transfers (tlc -simulate).      *)
EXTENDS MC_Stats, Json
CONSTANT GenDepth, GenSet
VARIABLES hist, done
AE(sp, sc, dp, dc, d, i, o) == [sp |-> sp, sc |-> sc, dp |-> dp, dc |-> dc, denom |-> d, in |-> i, out |-> o]
CE(sp, sc, dp, dc, n) == [sp |-> sp, sc |-> sc, dp |-> dp, dc |-> dc, n |-> n]
Seeded == GenDocIn([DefG EXCEPT !.amts = <<AE("CCTP", "1", "HYP", "2", "uusdc", 0, 3), AE("HYP", "2", "CCTP", "1", "uusdc", 4, 4),
                                            AE("INT", "noble", "INT", "noble", "ustake", 5, 1), AE("IBC", "channel-0", "CCTP", "0", "uusdc", 10, 9)>>,
                                 !.cnts = <<CE("CCTP", "1", "HYP", "2", 2), CE("INT", "noble", "INT", "noble", 1), CE("IBC", "channel-0", "CCTP", "0", 7)>>])
\* a ledger with more entries than the SDK's default page (100), and counterparties that are string
\* prefixes of one another ("1", "10", "100", "2")
BigLedger == GenDocIn([DefG EXCEPT !.amts = [n \in 1..130 |-> AE("IBC", "channel-" \o ToString(n), "CCTP", "0", "uusdc", n, n)],
                                    !.cnts = [n \in 1..130 |-> CE("IBC", "channel-" \o ToString(n), "CCTP", "0", n)]])
PrefixLedger == GenDocIn([DefG EXCEPT !.amts = << AE("IBC", "channel-0", "CCTP", "1", "uusdc", 1, 1), AE("IBC", "channel-0", "CCTP", "10", "uusdc", 2, 2),
                                                  AE("IBC", "channel-0", "CCTP", "100", "uusdc", 3, 3), AE("IBC", "channel-0", "CCTP", "2", "uusdc", 4, 4),
                                                  AE("IBC", "channel-1", "HYP", "1", "uusdc", 5, 5), AE("IBC", "channel-10", "HYP", "1", "uusdc", 6, 6) >>,
                                       !.cnts = << CE("IBC", "channel-0", "CCTP", "1", 1), CE("IBC", "channel-0", "CCTP", "10", 2), CE("IBC", "channel-0", "CCTP", "100", 3),
                                                   CE("IBC", "channel-0", "CCTP", "2", 4), CE("IBC", "channel-1", "HYP", "1", 5), CE("IBC", "channel-10", "HYP", "1", 6) >>])
Fee == <<FeeAct(<<Bps(100, "F1")>>)>>
Prefix == CASE GenSet = "empty" -> <<>>
            [] GenSet = "big" -> << BigLedger >>
            [] GenSet = "prefix" -> << PrefixLedger >>
            [] GenSet = "one" -> << Xfer(0, "uusdc", 1000, FwCCTP(0, "MINT_A", "NONE"), Fee) >>
            [] GenSet = "mixed" -> << Xfer(0, "uusdc", 1000, FwCCTP(0, "MINT_A", "NONE"), Fee), Xfer(1, "uusdc", 1000, FwCCTP(0, "MINT_A", "NONE"), <<>>),
                                      Xfer(0, "uusdc", 1000, FwCCTP(1, "MINT_A", "NONE"), <<>>), Xfer(0, "uusdc", 1000, FwHYP("T1", 1, "R_A"), Fee),
                                      Xfer(1, "ustake", 1000, FwHYP("T2", 2, "R_A"), <<>>), Xfer(0, "ustake", 1000, FwINT("U"), Fee),
                                      Xfer(1, "uusdc", 1000, FwINT("U"), <<>>), Xfer(0, "uusdc", 1000, FwCCTP(0, "MINT_A", "NONE"), Fee),
                                      Xfer(0, "uusdc", 1000, FwCCTP(2, "MINT_A", "NONE"), <<>>), Xfer(1, "uusdc", 1000, FwHYP("T1", 2, "R_A"), <<>>) >>
            [] OTHER -> << Seeded, Xfer(0, "uusdc", 1000, FwCCTP(0, "MINT_A", "NONE"), Fee), Xfer(1, "ustake", 1000, FwINT("U"), <<>>), ReimportIn >>
GenInit == st = InitSt /\ last = NullStep /\ hist = <<>> /\ done = FALSE
GenNext == \/ /\ hist = <<>> /\ ~done /\ hist' = Prefix \o SetToSeq(Queries) /\ UNCHANGED <<st, last, done>>
           \/ /\ hist # <<>> /\ ~done /\ done' = TRUE /\ UNCHANGED <<st, last, hist>>
GenSpec == GenInit /\ [][GenNext]_<<st, last, hist, done>>
\* random ledgers: GenDepth random transfers, then the battery
RECURSIVE RandSeq(_)
RandSeq(n) == IF n = 0 THEN <<>> ELSE <<RandomElement(Transfers)>> \o RandSeq(n - 1)
SimNext == \/ /\ hist = <<>> /\ ~done /\ hist' = RandSeq(GenDepth) \o SetToSeq(Queries) /\ UNCHANGED <<st, last, done>>
           \/ /\ hist # <<>> /\ ~done /\ done' = TRUE /\ UNCHANGED <<st, last, hist>>
SimSpec == GenInit /\ [][SimNext]_<<st, last, hist, done>>
Emit == done => PrintT(<<"BEHAVIOUR", ToJson(hist)>>)
=============================================================================
