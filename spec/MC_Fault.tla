------------------------------ MODULE MC_Fault ------------------------------
(* Family FAULT (C03): for every payload shape, the failure of each individual    *)
(* downstream call (module-to-module sweep, wrapped ICS-20 application, k-th fee   *)
(* send, fee event, CCTP burn, Hyperlane token query, Hyperlane transfer, internal *)
(* send, payload-processed event) and pairs of such failures, from a clean state   *)
(* and from a state with coins lying on the orbiter account.  Replayed in          *)
(* instrumented mode: each fault point wraps the REAL dependency.                  *)
EXTENDS OrbiterProps, Inputs
CONSTANT MaxDepth, FaultSet

Points == <<"sweep", "ics20", "feeSend1", "feeSend2", "feeEmit", "cctpBurn", "hypToken", "hypTransfer", "intSend", "processedEmit">>
FaultSeqs == {<<>>} \cup { <<Points[i]>> : i \in DOMAIN Points }
             \cup (IF FaultSet = "pairs" THEN { <<Points[i], Points[j]>> : i, j \in DOMAIN Points } \ { <<Points[i], Points[i]>> : i \in DOMAIN Points }
                   ELSE { <<"feeSend1", "intSend">>, <<"sweep", "ics20">>, <<"feeEmit", "processedEmit">> })
FaultSeqsOrdered == { f \in FaultSeqs : Len(f) < 2 \/ \E i, j \in DOMAIN Points : i < j /\ f = <<Points[i], Points[j]>> }

Routes == { FwCCTP(0, "MINT_A", "NONE"), FwHYP("T1", 1, "R_A"), FwINT("U") }
FeeLists == { <<>>, <<FeeAct(<<Bps(100, "F1")>>)>>, <<FeeAct(<<Fix(3, "F1"), Bps(5000, "F2")>>)>> }
Transfers == { [Xfer(0, "uusdc", 10000, fw, acts) EXCEPT !.faults = f] : fw \in Routes, acts \in FeeLists, f \in FaultSeqsOrdered }
Plain == { [Pkt(0, "U", "RET", "uusdc", 9, "NONE") EXCEPT !.faults = f] : f \in {<<>>, <<"ics20">>, <<"intSend">>} }
AdminFaults == { [PauseProtocol("AUTH", "CCTP") EXCEPT !.faults = f] : f \in {<<>>, <<"adminEmit">>} }
                \cup { [PauseCC("AUTH", "HYP", <<Cp1, Cp2>>) EXCEPT !.faults = <<"adminEmit">>],
                       [PauseAction("AUTH", "FEE") EXCEPT !.faults = <<"adminEmit">>],
                       [UpdateParams("AUTH", 5) EXCEPT !.faults = <<"adminEmit">>] }

MCAlphabet == Transfers \cup Plain \cup AdminFaults \cup { DepositIn("uusdc", 5) }
SmallAlphabet == MCAlphabet

StepProps == [][ Prop_C03(last') /\ Prop_C01(last') /\ MC_C02(last') /\ Prop_C04(last') /\ Prop_C05(last')
                 /\ Prop_C10(last') /\ Prop_C12(last') ]_vars
P01 == [][Prop_C01(last')]_vars
P02 == [][MC_C02(last')]_vars
P03 == [][Prop_C03(last')]_vars
P04 == [][Prop_C04(last')]_vars
P05 == [][Prop_C05(last')]_vars
P10 == [][Prop_C10(last')]_vars
P12 == [][Prop_C12(last')]_vars
\* non-vacuity of the model: an armed point that the execution reaches does fire
Depth == TLCGet("level") <= MaxDepth
View == st
=============================================================================
