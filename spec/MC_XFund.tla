------------------------------ MODULE MC_XFund ------------------------------
(* Family XFUND (C01, C02, C11): coins of ANOTHER denomination lying on the orbiter  *)
(* account must never fund a transfer.  Large direct deposits in both denominations, *)
(* Hyperlane transfers through the token whose collateral matches the packet's denom  *)
(* and through the token whose collateral is the other (deposited) denom, CCTP with   *)
(* the burnable and the non-burnable denom - every three-step history (four thorough),*)
(* so that "matching transfer first, then deposit, then mismatching transfer" and     *)
(* every other order is executed in the real code.                                    *)
EXTENDS OrbiterProps, Inputs
CONSTANT MaxDepth

Fee1 == <<FeeAct(<<Bps(100, "F1")>>)>>
Transfers == { Xfer(0, "ustake", 10000, FwHYP("T2", 2, "R_B"), <<>>), Xfer(0, "uusdc", 10000, FwHYP("T1", 1, "R_A"), <<>>),
               Xfer(0, "uusdc", 10000, FwHYP("T2", 2, "R_B"), <<>>), Xfer(0, "ustake", 10000, FwHYP("T1", 1, "R_A"), Fee1),
               Xfer(0, "ustake", 10000, FwCCTP(0, "MINT_A", "NONE"), <<>>), Xfer(0, "uusdc", 10000, FwCCTP(0, "MINT_A", "NONE"), Fee1),
               Xfer(1, "uusdc", 10000, FwINT("U"), <<>>) }
Others == { DepositIn("uusdc", 20000), DepositIn("ustake", 20000) }
MCAlphabet == Transfers \cup Others
SmallAlphabet == MCAlphabet
StepProps == [][ /\ MC_C11(last') /\ MC_C02(last') /\ Prop_C01(last') /\ Prop_C05(last') /\ Prop_C12(last') ]_vars
LedgerConsistent == \A d \in Denom : MapThenSumSet(LAMBDA a : st.bal[a][d], Acct) = st.supply[d]
Depth == TLCGet("level") <= MaxDepth
View == st
=============================================================================
