---------------------------- MODULE OrbiterTrace ----------------------------
(***************************************************************************)
(* Trace validation (DESIGN.md section 5.3).  Reads the NDJSON written by  *)
(* harness/cmd/orbsim (one line per step of the REAL code, with abstract   *)
(* input, outcome, projected pre/post state and observations) and, for     *)
(* every line,                                                             *)
(*   - Conf: compares the code's step with Apply(pre, in), per variable    *)
(*     group (the binding between specification and implementation);      *)
(*   - Obs:  evaluates every property predicate Prop_Cxx on the observed   *)
(*     step (the verdicts);                                                *)
(*   - integrity: consecutive lines of a behaviour share state, and every  *)
(*     behaviour starts in the specification's initial state.              *)
(* It re-synchronises on the logged state at every step, so one divergence *)
(* is reported at the step and group where it happens and nowhere else.    *)
(* Findings are printed (always-true invariant) and collected by driver/.  *)
(***************************************************************************)
EXTENDS OrbiterProps, Json, IOUtils

VARIABLE l

TraceFile == IOEnv.ORB_TRACE
Trace == ndJsonDeserialize(TraceFile)

\* which property predicates this run evaluates (driver passes a comma-less list via env)
PropIds == {"C01", "C02", "C03", "C04", "C05", "C06", "C07", "C13", "C19", "C14", "C15", "C16", "C20", "C17b", "C17c", "C08", "C09", "C10", "C11", "C12", "C17", "C18"}

-----------------------------------------------------------------------------
(* JSON -> specification values                                            *)

JSt(j) ==
  [ bal    |-> [a \in Acct |-> [d \in Denom |-> j.bal[a][d]]],
    supply |-> [d \in Denom |-> j.supply[d]],
    pProto |-> ToSet(j.pProto),
    pCC    |-> {<<x[1], x[2]>> : x \in ToSet(j.pCC)},
    pAct   |-> ToSet(j.pAct),
    maxPT  |-> j.maxPT, hasParams |-> j.hasParams,
    amt    |-> {[sp |-> e.sp, sc |-> e.sc, dp |-> e.dp, dc |-> e.dc, denom |-> e.denom, in |-> e.in, out |-> e.out] : e \in ToSet(j.amt)},
    cnt    |-> {[sp |-> e.sp, sc |-> e.sc, dp |-> e.dp, dc |-> e.dc, n |-> e.n] : e \in ToSet(j.cnt)},
    env    |-> [ftfPaused |-> j.env.ftfPaused, blocked |-> ToSet(j.env.blocked), cctpPaused |-> j.env.cctpPaused] ]

JReq(r) == [route |-> r.route, withCaller |-> r.withCaller, from |-> r.from, amt |-> r.amt, denom |-> r.denom,
            dom |-> r.dom, mint |-> r.mint, caller |-> r.caller, tok |-> r.tok, rcp |-> r.rcp,
            hook |-> r.hook, gas |-> r.gas, maxfee |-> r.maxfee, mfd |-> r.mfd, meta |-> r.meta, to |-> r.to]

\* In app mode the internal route has no typed event: the request is the last bank transfer out of
\* the orbiter account that is not the sweep to the dust collector.
OutXfers(xfers) == SelectSeq(xfers, LAMBDA x : x.from = "orb" /\ x.to # "dust")
ReqsOf(in, ack, req, xfers) ==
  LET typed == [i \in DOMAIN req |-> JReq(req[i])] IN
  IF in.t = "recv" /\ ack = "ok" /\ typed = <<>> /\ PidOf(in.fw.pid) = "INT" /\ OutXfers(xfers) # <<>>
  THEN LET x == OutXfers(xfers)[Len(OutXfers(xfers))] IN
       <<[BaseReq EXCEPT !.route = "INT", !.amt = x.amt, !.denom = x.denom, !.to = x.to]>>
  ELSE typed
JReqs(ev) == ReqsOf(ev.in, ev.res.ack, ev.obs.req, ev.obs.xfers)

FullReq(ev) == ev.obs.req # <<>> /\ \A i \in DOMAIN ev.obs.req : ev.obs.req[i].full

AmtIn(list, d) == LET m == SelectSeq(list, LAMBDA e : e.d = d) IN IF m = <<>> THEN 0 ELSE m[1].a
OrbUp(ev) == \E i \in DOMAIN ev.obs.orbPost : ev.obs.orbPost[i].a > AmtIn(ev.obs.orbPre, ev.obs.orbPost[i].d)

\* instrumented mode logs the coin each action saw and left
HasTrace(ev) == ev.in.t = "recv" /\ "x" \in DOMAIN ev.obs /\ "perAction" \in DOMAIN ev.obs.x

HasXAny(ev, f) == "x" \in DOMAIN ev.obs /\ f \in DOMAIN ev.obs.x
JAmt(e) == [sp |-> e.sp, sc |-> e.sc, dp |-> e.dp, dc |-> e.dc, denom |-> e.denom, in |-> e.in, out |-> e.out]
HasX(ev, f) == ev.in.t = "recv" /\ "x" \in DOMAIN ev.obs /\ f \in DOMAIN ev.obs.x

DummyOut == [ok |-> FALSE]
JCtl(ev, name, pre0) ==
  LET c == ev.obs.ctl[name] IN
  IF ~c.run THEN [run |-> FALSE, ok |-> FALSE, out |-> DummyOut]
  ELSE [run |-> TRUE, ok |-> c.ack = "ok",
        out |-> IF name = "clean"
                THEN Outcome(Clean(pre0), [ok |-> c.ack = "ok", st |-> JSt(c.post),
                                           req |-> IF c.ack = "ok" THEN ReqsOf(ev.in, c.ack, c.req, c.xfers) ELSE <<>>])
                ELSE DummyOut]

JQ(x) == [ qProto  |-> ToSet(x.qProto),
           isProto |-> ToSet(x.isProto),
           isCC    |-> ToSet(x.isCC),
           qCC     |-> {[p |-> r.p, ok |-> r.ok, dup |-> r.dup, cps |-> ToSet(r.cps)] : r \in ToSet(x.qCC)},
           qAct    |-> ToSet(x.qAct),
           isAct   |-> ToSet(x.isAct),
           qParams |-> x.qParams, qParamsOk |-> x.qParamsOk ]

DummyX == [exportOk |-> TRUE, validateOk |-> TRUE, initOk |-> TRUE, sameExport |-> TRUE, fullOk |-> TRUE, sameBeh |-> TRUE]

ToStep(ev) ==
  LET pre == JSt(ev.pre)  post == JSt(ev.post)
      ok == ev.res.ack = "ok"
      reqs == JReqs(ev)
      \* requests of a refused transfer were rolled back with it
      effReq == IF ok \/ ev.in.t = "admin" THEN reqs ELSE <<>>
  IN [ pre |-> pre, in |-> ev.in, post |-> post, ok |-> ok,
       panic |-> ev.res.ack \in {"panic", "nil"},
       req |-> IF ev.in.t = "admin" /\ ~FullReq(ev) /\ ~ok THEN <<>> ELSE effReq,
       \* requests recorded by the wrappers around the real message servers, whatever happened next
       reached |-> IF ev.in.t = "recv" /\ FullReq(ev) THEN reqs ELSE <<>>,
       ctl |-> [n \in {"nopause", "clean", "noacts", "nopt"} |-> JCtl(ev, n, pre)],
       out |-> Outcome(pre, [ok |-> ok, st |-> post, req |-> IF ok THEN reqs ELSE <<>>]),
       orbUp |-> OrbUp(ev),
       othersSame |-> ev.obs.othersPre = ev.obs.othersPost,
       fullReq |-> FullReq(ev),
       fired |-> ToSet(ev.obs.fired),
       hasTrace |-> HasTrace(ev),
       perAction |-> IF HasTrace(ev)
                     THEN [i \in DOMAIN ev.obs.x.perAction |->
                             LET a == ev.obs.x.perAction[i] IN
                             [id |-> a.id, cin |-> [d |-> a.inDenom, n |-> a.inAmt],
                              cout |-> [d |-> a.outDenom, n |-> a.outAmt], err |-> a.err]]
                     ELSE <<>>,
       hasQ |-> ev.in.t = "admin",
       q |-> IF ev.in.t = "admin" THEN JQ(ev.obs.x) ELSE QueryView(post),
       x |-> IF ev.in.t = "reimport"
             THEN [exportOk |-> ev.obs.x.exportOk, validateOk |-> ev.obs.x.validateOk, initOk |-> ev.obs.x.initOk,
                   sameExport |-> ev.obs.x.sameExport, fullOk |-> ev.obs.x.fullOk, sameBeh |-> ev.obs.x.sameBeh]
             ELSE DummyX,
       hasBig |-> HasX(ev, "big"),
       big |-> IF HasX(ev, "big") THEN ev.obs.x.big ELSE [esc |-> <<0>>, orb |-> <<0>>, orbPre |-> <<0>>, dust |-> <<0>>, F1 |-> <<0>>, F2 |-> <<0>>, U |-> <<0>>],
       hasDiff |-> HasXAny(ev, "diff"),
       diff |-> IF HasXAny(ev, "diff")
                THEN [ackEq |-> ev.obs.x.diff.ackEq, eventsEq |-> ev.obs.x.diff.eventsEq, stateEq |-> ev.obs.x.diff.stateEq,
                      appVersionEq |-> IF "appVersionEq" \in DOMAIN ev.obs.x THEN ev.obs.x.appVersionEq ELSE TRUE]
                ELSE [ackEq |-> TRUE, eventsEq |-> TRUE, stateEq |-> TRUE, appVersionEq |-> TRUE],
       pages |-> IF ev.in.t = "query"
                 THEN [i \in DOMAIN ev.obs.x.pages |->
                         [items |-> [j \in DOMAIN ev.obs.x.pages[i].items |-> JAmt(ev.obs.x.pages[i].items[j])],
                          hasNext |-> ev.obs.x.pages[i].hasNext, total |-> ev.obs.x.pages[i].total, err |-> ev.obs.x.pages[i].err]]
                 ELSE <<>>,
       hasDig |-> HasXAny(ev, "dig"),
       dig |-> IF HasXAny(ev, "dig") THEN ev.obs.x.dig ELSE "",
       peers |-> IF HasXAny(ev, "dig") THEN ev.obs.x.peers ELSE <<>>,
       hasParse |-> HasX(ev, "parse"),
       parse |-> IF HasX(ev, "parse") THEN [ok |-> ev.obs.x.parse.ok, pure |-> ev.obs.x.parse.pure, hist |-> ev.obs.x.parse.hist] ELSE [ok |-> FALSE, pure |-> TRUE, hist |-> TRUE],
       rt |-> IF HasX(ev, "rt") THEN [built |-> ev.obs.x.rt.built, parseOk |-> ev.obs.x.rt.parseOk, equal |-> ev.obs.x.rt.equal,
                                      remarshalEqual |-> ev.obs.x.rt.remarshalEqual, sameMemo |-> ev.obs.x.rt.sameMemo]
              ELSE [built |-> FALSE, parseOk |-> FALSE, equal |-> FALSE, remarshalEqual |-> FALSE, sameMemo |-> FALSE],
       hasCredit |-> HasX(ev, "ics20Seen") /\ ev.obs.x.ics20Seen,
       credit |-> IF HasX(ev, "ics20Seen") /\ ev.obs.x.ics20Seen THEN ev.obs.x.ics20Credit ELSE <<>>,
       idres |-> IF ev.in.t = "ident" THEN ev.obs.x.ids ELSE <<>>,
       gen |-> IF ev.in.t = "gendoc" THEN [validateOk |-> ev.obs.x.validateOk, initOk |-> ev.obs.x.initOk]
               ELSE [validateOk |-> FALSE, initOk |-> FALSE] ]

-----------------------------------------------------------------------------
(* Conformance of the observed step with Apply, per variable group         *)

Groups == {"events", "xfers", "qstats", "ack", "bal", "supply", "pause", "params", "stats", "env", "req", "fired", "actions", "ident", "genesis", "parse"}

Mismatch_(ev, S) ==
  LET exp == Apply(S.pre, ev.in)
      \* out-of-model inputs (huge amounts) are not compared
      skip == exp.why = "out-of-model"
  IN IF skip THEN {} ELSE
     {g \in Groups :
        CASE g = "ack"    -> exp.ok # S.ok
          [] g = "bal"    -> exp.st.bal # S.post.bal
          [] g = "supply" -> exp.st.supply # S.post.supply
          [] g = "pause"  -> <<exp.st.pProto, exp.st.pCC, exp.st.pAct>> # <<S.post.pProto, S.post.pCC, S.post.pAct>>
          [] g = "params" -> <<exp.st.maxPT, exp.st.hasParams>> # <<S.post.maxPT, S.post.hasParams>>
          [] g = "stats"  -> <<exp.st.amt, exp.st.cnt>> # <<S.post.amt, S.post.cnt>>
          [] g = "env"    -> exp.st.env # S.post.env
          [] g = "xfers"  -> ev.in.t = "recv" /\ S.ok /\ exp.ok /\ ForOrbiter(ev.in) /\ ev.in.mk = "PAYLOAD"
                             /\ [i \in DOMAIN ev.obs.xfers |-> XF(ev.obs.xfers[i].from, ev.obs.xfers[i].to, ev.obs.xfers[i].denom, ev.obs.xfers[i].amt)]
                                # XfersOf(S.pre, ev.in)
          [] g = "events" -> ev.in.t = "recv" /\ S.ok /\ exp.ok /\ ForOrbiter(ev.in) /\ ev.in.mk = "PAYLOAD"
                             /\ SelectSeq(ev.obs.events, LAMBDA t : t \in StageEventTypes) # EventsOf(ev.in)
          [] g = "qstats" -> ev.in.t = "query" /\ [i \in DOMAIN S.pages |-> [n |-> Len(S.pages[i].items), h |-> S.pages[i].hasNext, e |-> S.pages[i].err]]
                                                  # [i \in DOMAIN ModelPages(S.pre, ev.in.q) |-> LET m == ModelPages(S.pre, ev.in.q)[i] IN [n |-> Len(m.items), h |-> m.hasNext, e |-> m.err]]
          [] g = "parse"  -> S.hasParse /\ ev.in.mk = "PAYLOAD" /\ (ParseOK(ev.in) /\ PayloadValid(ev.in)) # S.parse.ok
          [] g = "ident"  -> ev.in.t = "ident" /\ IdentModel(S.pre, ev.in) # S.idres
          [] g = "genesis" -> ev.in.t = "gendoc" /\ GenValid(ev.in.g) # S.gen.validateOk
          [] g = "fired"  -> exp.fired # S.fired
          [] g = "actions" -> S.hasTrace /\ S.ok /\ exp.trace # S.perAction
          [] g = "req"    -> IF S.ok /\ ev.in.t = "recv"
                             THEN [i \in DOMAIN exp.req |-> Mask(exp.req[i], S.fullReq)] # [i \in DOMAIN S.req |-> Mask(S.req[i], S.fullReq)]
                             ELSE FALSE }

\* a discarded step is judged by conformance only (its branch must leave nothing behind, which the
\* state groups compare); the step properties speak about committed steps, and a leak from a
\* discarded branch is judged at the later committed steps it influences
PropHolds(c, S) ==
  CASE S.in.disc -> TRUE
    [] c = "C01" -> Prop_C01(S) [] c = "C02" -> Prop_C02(S) /\ Prop_C02big(S) [] c = "C03" -> Prop_C03(S) /\ Prop_C03big(S)
    [] c = "C04" -> Prop_C04(S) /\ Prop_C04big(S) [] c = "C05" -> Prop_C05(S) [] c = "C06" -> Prop_C06(S) [] c = "C08" -> Prop_C08(S)
    [] c = "C09" -> Prop_C09(S) [] c = "C10" -> Prop_C10(S) [] c = "C11" -> Prop_C11(S) /\ Prop_C11big(S)
    [] c = "C07" -> Prop_C07(S) [] c = "C13" -> Prop_C13(S) [] c = "C19" -> Prop_C19(S)
    [] c = "C14" -> Prop_C14(S) [] c = "C15" -> Prop_C15(S) [] c = "C16" -> Prop_C16(S) [] c = "C20" -> Prop_C20(S) [] c = "C17b" -> Prop_C17b(S) [] c = "C17c" -> Prop_C17c(S) [] c = "C12" -> Prop_C12(S) [] c = "C17" -> Prop_C17(S) [] c = "C18" -> Prop_C18(S)
    [] OTHER -> TRUE

\* antecedent flags: on which properties this step is a non-trivial evaluation
Ante(S) ==
  {c \in PropIds :
     CASE c = "C01" -> IsRecv(S)
       [] c = "C03" -> IsRecv(S) /\ (S.fired # {} \/ ~S.ok \/ IsBig(S))
       [] c = "C02" -> IsTransfer(S) \/ (IsBig(S) /\ S.ok)
       [] c = "C12" -> IsTransfer(S)
       [] c = "C04" -> HasFee(S) \/ (IsBig(S) /\ FeeActs(S) # {})
       [] c = "C05" -> IsTransfer(S) \/ (IsOrbiterPacket(S) /\ S.in.mk = "PAYLOAD" /\ (Unrouted(S.in) \/ Mismatch(S.in)))
       [] c = "C06" -> (HasActions(S) /\ S.hasTrace) \/ (IsOrbiterPacket(S) /\ S.in.mk = "PAYLOAD" /\ ParseOK(S.in) /\ RepeatsAction(S.in))
       [] c = "C08" -> (HasPayload(S) /\ (S.pre.pProto # {} \/ S.pre.pCC # {})) \/ IsPauseMsg(S)
                         \/ (S.in.t = "gendoc" /\ S.gen.initOk /\ (S.in.g.pp # <<>> \/ S.in.g.pcc # <<>>))
       [] c = "C09" -> (HasPayload(S) /\ S.pre.pAct # {}) \/ (IsAdmin(S) /\ S.in.rpc \in ActionRpcs)
                         \/ (S.in.t = "gendoc" /\ S.gen.initOk /\ S.in.g.pa # <<>>)
       [] c = "C14" -> IsRecv(S) /\ S.in.mk \in {"MUT", "RANDOM", "RAW"}
       [] c = "C07" -> (IsRecv(S) /\ ~ForOrbiter(S.in) /\ S.hasDiff) \/ S.in.t \in {"ackpkt", "timeout"}
       [] c = "C13" -> S.in.t = "query"
       [] c = "C19" -> S.hasDig /\ Len(S.peers) > 0
       [] c = "C15" -> IsRecv(S) /\ S.hasParse
       [] c = "C16" -> IsOrbiterPacket(S) /\ S.in.dn # "L" /\ (~ReturningNative(S.in) \/ (S.ok /\ S.hasCredit))
       [] c = "C20" -> S.in.t = "ident"
       [] c = "C17b" -> S.in.t = "gendoc" /\ S.gen.validateOk
       [] c = "C10" -> IsAdmin(S)
       [] c = "C11" -> (IsOrbiterPacket(S) /\ S.ctl.clean.run /\ \E d \in Denom : S.pre.bal["orb"][d] > 0)
                         \/ (IsBig(S) /\ ~BIsZero(S.big.orbPre))
       [] c = "C17" -> S.in.t = "reimport"
       [] c = "C18" -> (HasPayload(S) /\ S.in.fw.pt > 0) \/ (IsAdmin(S) /\ S.in.rpc = "UpdateParams")
                         \/ (S.in.t = "gendoc" /\ S.gen.initOk)
       [] OTHER -> FALSE}

\* human-readable detail for batched steps: which entries depart from the model
Detail(ev, S) ==
  IF ev.in.t = "ident" /\ Len(S.idres) = Len(ev.in.ids)
  THEN LET M == IdentModel(S.pre, ev.in) IN
       {<<S.idres[i].cp, {f \in DOMAIN M[i] : M[i][f] # S.idres[i][f]}>> : i \in {j \in DOMAIN M : M[j] # S.idres[j]}}
  ELSE {}

\* Every behaviour runs on a fresh branch of the genesis state, and everything executed before it in
\* the same process ran on branches that were DISCARDED.  If the module's own state is nevertheless
\* different from genesis at the start of a behaviour, state leaked through process memory (a cache
\* that is not rolled back with the context): that is a violation of the property governing that
\* piece of state, not a harness fault.  Differences in the ledger / environment remain integrity
\* failures (the harness owns those).
StartViol(k) ==
  LET ev == Trace[k]  s == JSt(ev.pre) IN
  IF ev.i # 1 THEN {}
  ELSE (IF <<s.pProto, s.pCC>> # <<InitSt.pProto, InitSt.pCC>> THEN {"C08"} ELSE {})
       \cup (IF s.pAct # InitSt.pAct THEN {"C09"} ELSE {})
       \cup (IF <<s.maxPT, s.hasParams>> # <<InitSt.maxPT, InitSt.hasParams>> THEN {"C18"} ELSE {})
       \cup (IF <<s.amt, s.cnt>> # <<InitSt.amt, InitSt.cnt>> THEN {"C12"} ELSE {})
Integrity(k) ==
  LET ev == Trace[k] IN
  IF ev.i = 1 THEN (IF <<JSt(ev.pre).bal, JSt(ev.pre).supply, JSt(ev.pre).env>> = <<InitSt.bal, InitSt.supply, InitSt.env>> THEN {} ELSE {"starts-at-init"})
  ELSE IF k > 1 /\ Trace[k - 1].b = ev.b /\ Trace[k - 1].i = ev.i - 1 /\ JSt(Trace[k - 1].post) = JSt(ev.pre)
       THEN {} ELSE {"continuity"}

\* st and last belong to the model-checking reading of Orbiter.tla; here they are constants
TraceInit == l = 1 /\ st = InitSt /\ last = NullStep
TraceNext == l <= Len(Trace) /\ l' = l + 1 /\ UNCHANGED vars
TraceSpec == TraceInit /\ [][TraceNext]_<<l, vars>>

\* always TRUE: collects, does not stop (DESIGN.md section 5.3)
Report ==
  l > 1 =>
    LET k == l - 1  ev == Trace[k]  S == ToStep(ev)
        mism == Mismatch_(ev, S)
        viol == {c \in PropIds : ~PropHolds(c, S)} \cup StartViol(k)
        integ == Integrity(k)
    IN PrintT("@S " \o ToJson([k |-> k, b |-> ev.b, i |-> ev.i, why |-> Apply(S.pre, ev.in).why, ok |-> S.ok,
                                ante |-> Ante(S), mism |-> mism, viol |-> viol, integ |-> integ,
                                detail |-> Detail(ev, S)]))

TraceAccepted == TLCGet("stats").diameter = Len(Trace) + 1
=============================================================================
