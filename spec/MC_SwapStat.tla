---------------------------- MODULE MC_SwapStat ----------------------------
(* Family SWAPSTAT (C12, C06): statistics keys shared by the OUTGOING leg of a    *)
(* denomination-changing action and ordinary same-denomination traffic.  The swap  *)
(* output denomination is first sent out over channel-0 (environment step          *)
(* escrowSwap), so that it can return over IBC; then transfers that swap INTO it    *)
(* and transfers that ARRIVE in it use the same (source, destination, denom) key.   *)
(* Exhaustive to depth 4 over a 7-input alphabet (instrumented mode with the test   *)
(* swap controller).                                                                *)
EXTENDS OrbiterProps, Inputs
CONSTANT MaxDepth

FeeA == FeeAct(<<Bps(1000, "F1")>>)
MCAlphabet == { EnvIn("escrowSwap", ""),
                Xfer(0, "uusdc", 1000, FwINT("U"), <<SwapAct>>), Xfer(0, "uusdc", 100, FwINT("U"), <<SwapAct3>>),
                Xfer(0, "uswap", 100, FwINT("U"), <<>>), Xfer(0, "uswap", 40, FwINT("U"), <<FeeA>>),
                Xfer(0, "uusdc", 1000, FwINT("U"), <<>>), Xfer(1, "uswap", 100, FwINT("U"), <<>>) }
SmallAlphabet == MCAlphabet

P01 == [][Prop_C01(last')]_vars
P02 == [][MC_C02(last')]_vars
P06 == [][Prop_C06(last')]_vars
P12 == [][Prop_C12(last')]_vars
StatsKeysUnique == /\ \A e, f \in st.amt : AmtKeyOf(e) = AmtKeyOf(f) => e = f
                   /\ \A e, f \in st.cnt : CntKeyOf(e) = CntKeyOf(f) => e = f
Depth == TLCGet("level") <= MaxDepth
View == st
=============================================================================
