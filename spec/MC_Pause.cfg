SPECIFICATION Spec
CONSTANT Alphabet <- MCAlphabet
CONSTANT SwapRegistered = FALSE
CONSTANT MaxDepth = 0
CONSTANT PauseSet = "small"
PROPERTY StepProps
INVARIANT Unaffected
VIEW View
CHECK_DEADLOCK FALSE
