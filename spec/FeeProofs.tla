------------------------------ MODULE FeeProofs ------------------------------
(* TLAPS-checked lemmas of the fee model (the third leg next to TLC and Apalache): *)
(* for ALL natural amounts, with no bound.                                          *)
EXTENDS Integers, TLAPS

BPSNorm == 10000
FeeBps(a, b) == (a * b) \div BPSNorm

THEOREM FeeBounded == \A a \in Nat, b \in 1..BPSNorm : FeeBps(a, b) <= a /\ FeeBps(a, b) >= 0
  BY DEF FeeBps, BPSNorm

THEOREM FeeExact == \A a \in Nat, b \in 1..BPSNorm :
                      /\ BPSNorm * FeeBps(a, b) <= a * b
                      /\ a * b < BPSNorm * (FeeBps(a, b) + 1)
  BY DEF FeeBps, BPSNorm

\* (monotonicity in the amount needs nonlinear reasoning the SMT back-ends do not do unaided; it is
\*  discharged by Apalache in FeeMath.tla)

THEOREM Conserved == \A a \in Nat, t \in Nat : t < a => (a - t >= 1 /\ (a - t) + t = a)
  OBVIOUS
=============================================================================
