------------------------------ MODULE MC_Batch ------------------------------
(* Family BATCH (C08): batch sizes at the limit.  PauseCrossChains /                *)
(* UnpauseCrossChains with 99, 100 and 101 fresh canonical identifiers, with a       *)
(* duplicate or an invalid identifier in the LAST position of a 100-batch (all or    *)
(* nothing), overlapping batches, and the paginated pause queries over 100+ entries. *)
EXTENDS OrbiterProps, Inputs
CONSTANT MaxDepth

RECURSIVE DigitsOf(_)
DigitsOf(n) == IF n < 10 THEN <<ToString(n)>> ELSE Append(DigitsOf(n \div 10), ToString(n % 10))
Id(n) == <<ToString(n), DigitsOf(n)>>
Ids(from, count) == [i \in 1..count |-> Id(from + i - 1)]
Bad == <<"x1", <<"x", "1">>>>
Batches == { Ids(1000, 99), Ids(1000, 100), Ids(1000, 101), Ids(2000, 100),
             [Ids(3000, 100) EXCEPT ![100] = Id(3000)],          \* duplicate in the last position
             [Ids(4000, 100) EXCEPT ![100] = Bad],               \* invalid id in the last position
             Ids(1050, 100) }                                    \* overlaps the first batches
MCAlphabet == { PauseCC("AUTH", p, b) : p \in {"CCTP", "HYP"}, b \in Batches } \cup { UnpauseCC("AUTH", "CCTP", b) : b \in Batches }
              \cup { PauseCC("M", "CCTP", Ids(1000, 100)), PauseProtocol("AUTH", "CCTP"), UnpauseProtocol("AUTH", "CCTP"),
                     Xfer(0, "uusdc", 1000, FwCCTP(0, "MINT_A", "NONE"), <<>>), Xfer(0, "uusdc", 1000, FwHYP("T1", 1, "R_A"), <<>>) }
SmallAlphabet == { PauseCC("AUTH", "CCTP", b) : b \in Batches } \cup { UnpauseCC("AUTH", "CCTP", b) : b \in Batches }
                 \cup { Xfer(0, "uusdc", 1000, FwCCTP(0, "MINT_A", "NONE"), <<>>) }
StepProps == [][ Prop_C08(last') /\ Prop_C10(last') /\ Prop_C09(last') ]_vars
Depth == TLCGet("level") <= MaxDepth
View == <<st.pProto, st.pCC>>
=============================================================================
