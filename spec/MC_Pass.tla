------------------------------- MODULE MC_Pass -------------------------------
(* Family PASS (C07): traffic that is NOT an ICS-20 transfer to the orbiter account *)
(* - every receiver class other than the orbiter account, with memos that are       *)
(* empty, garbage, or a perfectly valid orbiter payload; every denomination class;   *)
(* arbitrary bytes and non-ICS-20 JSON as packet data; acknowledgements (success,    *)
(* error, garbage) and timeouts of packets Noble sent - in every orbiter state       *)
(* reached by interleaved transfers, pauses, parameter updates and deposits.  On     *)
(* the code each such input runs on two branches of the same state: through the      *)
(* orbiter middleware and through the wrapped transfer application alone.            *)
EXTENDS OrbiterProps, Inputs
CONSTANT MaxDepth

D0 == "{\"denom\":\"transfer/channel-7/ustake\",\"amount\":"
D1 == ",\"sender\":\"cosmos1sender\","
\* ALMOST ICS-20 data naming the orbiter account as receiver that the transfer module's decoder REFUSES
\* (unknown top-level field, keys in another case, a number where a string is due, an array): not ICS-20
\* transfers, they go to the wrapped application untouched
NearICS20 == {
  D0 \o "\"9\"" \o D1 \o "\"receiver\":\"$ADDR_orb\",\"memo\":\"\",\"extra\":1}",
  "{\"Denom\":\"transfer/channel-7/ustake\",\"Amount\":\"9\",\"Sender\":\"cosmos1sender\",\"Receiver\":\"$ADDR_orb\",\"Memo\":\"\"}",
  D0 \o "9" \o D1 \o "\"receiver\":\"$ADDR_orb\",\"memo\":\"\"}",
  "[" \o D0 \o "\"9\"" \o D1 \o "\"receiver\":\"$ADDR_orb\",\"memo\":\"\"}]" }
\* unusual spellings the decoder ACCEPTS, with the meaning ibc-go gives them (a duplicated key: the last
\* one wins; null memo = empty; data after the object is ignored): the orbiter must read them alike
OddToUser == { "DATA:" \o D0 \o "\"9\"" \o D1 \o "\"receiver\":\"$ADDR_orb\",\"receiver\":\"$ADDR_U\",\"memo\":\"\"}" }
OddToOrb  == { "DATA:" \o D0 \o "\"9\"" \o D1 \o "\"receiver\":\"$ADDR_U\",\"receiver\":\"$ADDR_orb\",\"memo\":\"\"}",
               "DATA:" \o D0 \o "\"9\"" \o D1 \o "\"receiver\":\"$ADDR_orb\",\"memo\":\"\"} trailing",
               "DATA:" \o D0 \o "\"9\"" \o D1 \o "\"receiver\":\"$ADDR_orb\",\"memo\":null}" }
Rcvs == {"U", "M", "DUST", "INVALID", "EMPTY", "OTHER_HRP", "cctp", "F1", "ORB_MIXED"}
Payload1 == [fw |-> FwINT("F2"), acts |-> <<FeeAct(<<Bps(100, "F1")>>)>>]
NonOrbiter ==
  { Pkt(c, r, dn, b, 9, "NONE") : c \in {0, 1}, r \in Rcvs, dn \in {"RET", "SRCNATIVE", "OTHERCH", "MULTI"}, b \in {"uusdc", "ustake"} }
  \cup { [Pkt(0, r, "RET", b, 9, "PAYLOAD") EXCEPT !.fw = Payload1.fw, !.acts = Payload1.acts] : r \in Rcvs, b \in {"uusdc", "ustake"} }
  \cup { [Pkt(0, r, "RET", "ustake", 9, "RAW") EXCEPT !.raw = m] : r \in {"U", "INVALID"}, m \in {"{\"orbiter\":null}", "garbage", "{\"orbiter\":{\"forwarding\":{}}}"} }
  \cup { [Pkt(0, "U", "RET", "ustake", 9, "MUT") EXCEPT !.fw = Payload1.fw, !.acts = Payload1.acts, !.aid = "orbiter.pre_actions.0", !.op = "null"] }
  \cup { [Pkt(0, "U", "RAWDATA", "ustake", 9, "RAW") EXCEPT !.raw = m] : m \in {"", "{}", "[]", "{\"denom\":\"x\"}", "\\x00\\x01", "{\"orbiter\":{}}"} }
  \cup { [Pkt(0, "ORB", "RAWDATA", "ustake", 9, "RANDOM") EXCEPT !.op = c, !.v = n] : c \in {"BYTES", "JSONISH"}, n \in 1..5 }
  \cup { [Pkt(0, "ORB", "RAWDATA", "ustake", 9, "RAW") EXCEPT !.raw = m] : m \in NearICS20 }
  \cup { [Pkt(0, "U", "RET", "ustake", 9, "NONE") EXCEPT !.raw = m] : m \in OddToUser }
  \cup { [Pkt(0, "ORB", "RET", "ustake", 9, "NONE") EXCEPT !.raw = m] : m \in OddToOrb }
  \cup { [Pkt(0, "U", "RET", "ustake", 9, "NONE") EXCEPT !.amtc = ac] : ac \in {"NEG", "EMPTY", "MAX256", "FRAC"} }
AckTimeouts ==
  { AckIn(op, c, dn, b, 7, who) : op \in {"ackOk", "ackErr", "ackGarbage"}, c \in {0, 1}, dn \in {"NATIVE", "VOUCHER"}, b \in {"uusdc", "ustake"}, who \in {"U", "M"} }
  \cup { TimeoutIn(c, dn, b, 7, who) : c \in {0, 1}, dn \in {"NATIVE", "VOUCHER"}, b \in {"uusdc", "ustake"}, who \in {"U", "INVALID"} }
  \cup { [AckIn("ackErr", 0, "NATIVE", "uusdc", 7, "U") EXCEPT !.mk = "PAYLOAD", !.fw = Payload1.fw, !.acts = Payload1.acts],
         [AckIn("ackErr", 0, "RAWDATA", "uusdc", 7, "U") EXCEPT !.raw = "garbage"], [TimeoutIn(0, "RAWDATA", "uusdc", 7, "U") EXCEPT !.raw = "{}"] }
StateChangers == { DepositIn("ustake", 3), Xfer(0, "uusdc", 1000, FwCCTP(0, "MINT_A", "NONE"), <<FeeAct(<<Bps(100, "F1")>>)>>), Xfer(1, "ustake", 500, FwINT("U"), <<>>),
                   PauseProtocol("AUTH", "INT"), PauseCC("AUTH", "CCTP", <<Cp0>>), PauseAction("AUTH", "FEE"), UpdateParams("AUTH", 64),
                   DepositIn("uusdc", 5), DepositIn("ustake", 5), EnvIn("ftfPause", ""), EnvIn("ftfUnpause", ""), EnvIn("block", "U") }
MCAlphabet == NonOrbiter \cup AckTimeouts \cup StateChangers
SmallAlphabet == MCAlphabet
StepProps == [][ Prop_C07(last') /\ Prop_C01(last') /\ Prop_C12(last') /\ Prop_C08(last') ]_vars
Depth == TLCGet("level") <= MaxDepth
View == st
=============================================================================
