SPECIFICATION GenSpec
CONSTANT Alphabet <- MCAlphabet
CONSTANT SwapRegistered = FALSE
CONSTANT MaxDepth = 1
CONSTANT FeeSet = "small"
CONSTANT Amounts = {10000}
CONSTANT GenDepth = 1
CONSTANT GenSet = "full"
INVARIANT Emit
CHECK_DEADLOCK FALSE
