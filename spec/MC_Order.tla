------------------------------ MODULE MC_Order ------------------------------
(* Family ORDER (C06, C12 with two entries per transfer): action sequences over    *)
(* the fee controller and a denomination-changing test controller registered       *)
(* under ACTION_SWAP (instrumented mode), in every order, with repeated ids, on    *)
(* every route; FEE then SWAP differs from SWAP then FEE in amount and denom.      *)
EXTENDS OrbiterProps, Inputs
CONSTANT MaxDepth

FeeA == FeeAct(<<Bps(1000, "F1")>>)
FeeB == FeeAct(<<Fix(7, "F2")>>)
FeeN == [id |-> "N1", at |-> "FEE", fees |-> <<Bps(1000, "F1")>>]       \* numeric spelling of ACTION_FEE
SwapN == [id |-> "N2", at |-> "TEST", fees |-> <<>>]
Seqs == { <<>>, <<FeeA>>, <<FeeB>>, <<SwapAct>>, <<FeeA, SwapAct>>, <<SwapAct, FeeA>>, <<FeeB, SwapAct>>, <<SwapAct, FeeB>>,
          <<FeeA, FeeB>>, <<SwapAct, SwapAct>>, <<FeeA, SwapAct, FeeB>>, <<FeeA, FeeN>>, <<SwapAct, SwapN>>, <<FeeN, SwapN>>,
          <<SwapAct3>>, <<SwapAct3, FeeA>>, <<FeeB, SwapAct3>>, <<SwapAct3, FeeB, FeeN>>,
          <<[id |-> "SWAP", at |-> "FEE", fees |-> <<>>]>>, <<[id |-> "FEE", at |-> "TEST", fees |-> <<>>]>> }
Routes == { FwINT("U"), FwCCTP(0, "MINT_A", "NONE"), FwHYP("T1", 1, "R_A"), FwINT("F1") }
Transfers == { Xfer(c, "uusdc", a, fw, acts) : c \in {0, 1}, a \in {1000, 1001, 1}, fw \in Routes, acts \in Seqs }
              \cup { Xfer(0, "ustake", 1000, FwINT("U"), acts) : acts \in Seqs }
Others == { DepositIn("uswap", 5), DepositIn("uusdc", 5), PauseAction("AUTH", "SWAP"), UnpauseAction("AUTH", "SWAP"), PauseAction("AUTH", "FEE") }
MCAlphabet == Transfers \cup Others
SmallAlphabet == MCAlphabet

StepProps == [][ Prop_C06(last') /\ Prop_C01(last') /\ MC_C02(last') /\ Prop_C05(last') /\ Prop_C09(last') /\ Prop_C12(last') ]_vars
P01 == [][Prop_C01(last')]_vars
P02 == [][MC_C02(last')]_vars
P05 == [][Prop_C05(last')]_vars
P06 == [][Prop_C06(last')]_vars
P09 == [][Prop_C09(last')]_vars
P12 == [][Prop_C12(last')]_vars
Depth == TLCGet("level") <= MaxDepth
View == st
=============================================================================
