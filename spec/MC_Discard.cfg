SPECIFICATION Spec
CONSTANT Alphabet <- MCAlphabet
CONSTANT SwapRegistered = FALSE
CONSTANT MaxDepth = 3
PROPERTY StepProps
PROPERTY DiscardInert
CONSTRAINT Depth
VIEW View
CHECK_DEADLOCK FALSE
