SPECIFICATION Spec
CONSTANT Alphabet <- MCAlphabet
CONSTANT SwapRegistered = TRUE
CONSTANT MaxDepth = 4
PROPERTY P01 P02 P06 P12
INVARIANT StatsKeysUnique
CONSTRAINT Depth
VIEW View
CHECK_DEADLOCK FALSE
