SPECIFICATION GenSpec
CONSTANT Alphabet <- MCAlphabet
CONSTANT SwapRegistered = FALSE
CONSTANT MaxDepth = 2
CONSTANT GenDepth = 2
CONSTANT GenSet = "full"
INVARIANT Emit
CHECK_DEADLOCK FALSE
