----------------------------- MODULE Gen_Discard -----------------------------
(* Generation for family DISCARD: histories of length GenDepth whose first half is   *)
(* committed set-up, followed by discarded steps, closed by a committed probe.        *)
EXTENDS MC_Discard, Json
CONSTANT GenDepth, GenSet
VARIABLES hist, done

GenInit == st = InitSt /\ last = NullStep /\ hist = <<>> /\ done = FALSE
GenNext == \/ /\ Len(hist) < GenDepth
              /\ \E in \in PosAlphabet(Len(hist) + 1, GenDepth) : st' = Apply(st, in).st /\ hist' = Append(hist, in)
              /\ UNCHANGED <<last, done>>
           \/ /\ Len(hist) = GenDepth /\ ~done /\ done' = TRUE /\ UNCHANGED <<st, last, hist>>
GenSpec == GenInit /\ [][GenNext]_<<st, last, hist, done>>

SimNext == \/ /\ Len(hist) < GenDepth
              /\ LET in == RandomElement(MCAlphabet) IN st' = Apply(st, in).st /\ hist' = Append(hist, in)
              /\ UNCHANGED <<last, done>>
           \/ /\ Len(hist) = GenDepth /\ ~done /\ done' = TRUE /\ UNCHANGED <<st, last, hist>>
SimSpec == GenInit /\ [][SimNext]_<<st, last, hist, done>>

Emit == done => PrintT(<<"BEHAVIOUR", ToJson(hist)>>)
=============================================================================
