SPECIFICATION Spec
CONSTANT Alphabet <- MCAlphabet
CONSTANT SwapRegistered = FALSE
CONSTANT MaxDepth = 1
CONSTANT ReqSet = "small"
PROPERTY StepProps
CONSTRAINT Depth
VIEW View
CHECK_DEADLOCK FALSE
