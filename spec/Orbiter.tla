------------------------------- MODULE Orbiter -------------------------------
(***************************************************************************)
(* Explicit specification of the noble-assets/orbiter state machine.      *)
(*                                                                         *)
(* The system is sequential and deterministic: an input (an ICS-20 packet  *)
(* delivered by IBC core, an authority message, a direct deposit, an       *)
(* environment change, a genesis re-import) is applied to the chain state  *)
(* and either everything commits with a success outcome or nothing does.   *)
(* The single source of truth is the transition operator Apply(st, in),    *)
(* written as a chain of stages mirroring the code one-to-one             *)
(* (entrypoint/ibc_middleware.go : OnRecvPacket and what it calls).        *)
(*                                                                         *)
(* The same operators are used three ways (DESIGN.md section 3):           *)
(*   - model checking (MC_*.tla): Next applies every input of Alphabet;    *)
(*   - generation (Gen_*.tla): the history variable is printed as JSON;    *)
(*   - trace validation (OrbiterTrace.tla): Apply is evaluated on the      *)
(*     logged pre-state of every step of the real code.                    *)
(* The property predicates Prop_Cxx read only a *step record* S, so the    *)
(* very same text judges model steps and observed steps.                   *)
(***************************************************************************)
EXTENDS Integers, Sequences, FiniteSets, TLC, SequencesExt, FiniteSetsExt, Functions, BigNat

CONSTANTS Alphabet,      \* set of input records applied by Next
          SwapRegistered \* TRUE when the test swap controller is registered (instrumented mode)

VARIABLES st,    \* the abstract chain state (record, see InitSt)
          last   \* the step record of the transition just taken (history variable, not in VIEW)

vars == <<st, last>>

SumSeq(s) == FoldLeft(LAMBDA a, b : a + b, 0, s)

-----------------------------------------------------------------------------
(* The fixed test-bed world (harness/cmd/orbsim/world.go)                  *)

Acct  == {"orb", "dust", "esc0", "esc1", "U", "F1", "F2", "M", "cctp", "warp", "hyp", "xfer", "pool"}
Denom == {"uusdc", "ustake", "uswap", "ibc"}   \* "ibc" = all ibc/HASH vouchers, summed
NativeDenoms == {"uusdc", "ustake"}
\* denominations an escrow account can hold: the natives, and the swap output once some of it has been
\* sent out over a channel (environment step escrowSwap)
Escrowable == NativeDenoms \cup {"uswap"}
SwapEscrowed == 5000
MintingDenom == "uusdc"
BurnLimit    == 150000
CctpDomains  == {0, 1}
CctpNobleDomain == 4
HypTokens    == {"T1", "T2"}
OriginDenom(tok) == IF tok = "T1" THEN "uusdc" ELSE "ustake"
HypRouters   == {1, 2}
HypNobleDomains == {1196573006, 1313817164}
KnownHooks   == {"NONE", "H_NOOP", "H_DEFAULT", "H_IGP"}
\* the interchain gas paymaster of the test-bed charges in IgpDenom; required payment = gas limit
IgpDenom     == "ustake"
Bytes32      == {"MINT_A", "MINT_B", "MINT_ZERO", "CALLER_A", "CALLER_B", "CALLER_ZERO", "R_A", "R_B",
                 "T1", "T2", "T_UNK", "H_UNK", "H_NOOP", "H_DEFAULT", "H_IGP"}
BankBlocked  == {"dust"}               \* blocked_module_accounts_override (tracked ones)
MaxFeeRecipients == 5
MaxBatch     == 100
BIG          == 2147483647             \* cap used by the projection for 2^32-1

Escrow(chan) == IF chan = 0 THEN "esc0" ELSE "esc1"
\* Noble-side identifiers of the two channels of the test-bed; the second one has a sequence number
\* beyond 32 bits (ibc-go channel sequences are uint64) and differs from its counterparty end
Chan1Id      == "channel-4294967296"
SrcCp(chan)  == IF chan = 0 THEN "channel-0" ELSE Chan1Id

InitEscrow == 1000000
InitUser   == 100000

InitBal == [a \in Acct |-> [d \in Denom |->
              CASE a \in {"esc0", "esc1"} /\ d \in NativeDenoms -> InitEscrow
                [] a = "M" /\ d \in NativeDenoms -> InitUser
                [] a = "pool" /\ d = "uswap" -> InitEscrow
                [] OTHER -> 0]]

InitSt == [ bal    |-> InitBal,
            supply |-> [d \in Denom |-> CASE d \in NativeDenoms -> 2 * InitEscrow + InitUser
                                          [] d = "uswap" -> InitEscrow
                                          [] OTHER -> 0],
            pProto |-> {}, pCC |-> {}, pAct |-> {},
            maxPT  |-> 0, hasParams |-> TRUE,
            amt    |-> {}, cnt |-> {},
            env    |-> [ftfPaused |-> FALSE, blocked |-> {}, cctpPaused |-> FALSE] ]

-----------------------------------------------------------------------------
(* Identifier vocabulary                                                   *)

\* spellings of protocol ids inside a JSON payload -> the enum value, "BAD" if not a supported id
PidOf(p) == CASE p \in {"IBC", "N1"}  -> "IBC"
              [] p \in {"CCTP", "N2"} -> "CCTP"
              [] p \in {"HYP", "N3"}  -> "HYP"
              [] p \in {"INT", "N4"}  -> "INT"
              [] OTHER -> "BAD"
PidParses(p) == p # "PUNKNOWN"           \* an unknown enum *name* is a JSON error; numbers always parse
ActOf(a) == CASE a \in {"FEE", "N1"}  -> "FEE"
              [] a \in {"SWAP", "N2"} -> "SWAP"
              [] OTHER -> "BAD"
ActParses(a) == a # "AUNKNOWN"

\* names accepted by messages and queries (strings, no numeric spellings)
ProtoNames  == {"IBC", "CCTP", "HYP", "INT"}
ActionNames == {"FEE", "SWAP"}

CpUniverse == [p \in ProtoNames |-> CASE p = "CCTP" -> {"0", "1", "2"} [] p = "HYP" -> {"1", "2", "3"}
                                        [] p = "INT" -> {"noble"} [] OTHER -> {"channel-0", Chan1Id}]

Digits == {"0", "1", "2", "3", "4", "5", "6", "7", "8", "9"}
U32Max == <<"4", "2", "9", "4", "9", "6", "7", "2", "9", "5">>

RECURSIVE LexLeq(_, _)
LexLeq(s, t) == \* s, t digit sequences of equal length: s <= t numerically
  IF s = <<>> THEN TRUE
  ELSE IF Head(s) = Head(t) THEN LexLeq(Tail(s), Tail(t))
  ELSE \E k \in 0..9 : \E m \in 0..9 : k < m /\ Head(s) = ToString(k) /\ Head(t) = ToString(m)

\* exactly the decimal form of a 32-bit unsigned integer (C20)
CanonU32(cs) == /\ Len(cs) \in 1..10
                /\ \A i \in DOMAIN cs : cs[i] \in Digits
                /\ (Len(cs) > 1 => cs[1] # "0")
                /\ (Len(cs) = 10 => LexLeq(cs, U32Max))

\* ibc-go channel identifier: "channel-" followed by a canonical uint64 (we bound it to 19 digits)
ChanPrefix == <<"c", "h", "a", "n", "n", "e", "l", "-">>
IsChannelId(cs) == /\ Len(cs) > 8 /\ SubSeq(cs, 1, 8) = ChanPrefix
                   /\ LET n == SubSeq(cs, 9, Len(cs)) IN
                        /\ \A i \in DOMAIN n : n[i] \in Digits
                        /\ Len(n) <= 20          \* ibc-go: ^channel-[0-9]{1,20}$ (leading zeros are legal)

\* the design's validity of a counterparty id (cs = its characters) for a protocol
ValidCp(pid, cs) == /\ Len(cs) \in 1..32
                    /\ CASE pid = "IBC" -> IsChannelId(cs)
                         [] pid \in {"CCTP", "HYP"} -> CanonU32(cs)
                         [] pid = "INT" -> TRUE
                         [] OTHER -> FALSE

-----------------------------------------------------------------------------
(* Bank / FTF environment rules                                            *)

\* FTF SendRestrictionFn: every movement of the minting denom
Restricted(s, from, to, d) ==
  d = MintingDenom /\ (s.env.ftfPaused \/ from \in s.env.blocked \/ to \in s.env.blocked)

Move(s, from, to, d, n) ==
  IF from = to THEN s
  ELSE [s EXCEPT !.bal[from][d] = @ - n, !.bal[to][d] = @ + n]

-----------------------------------------------------------------------------
(* Payload descriptor: parsing and validation (controller/adapter, types/core) *)

FwTypes  == {"CCTP", "HYP", "INT"}                       \* registered ForwardingAttributes
ActTypes == {"FEE"} \cup (IF SwapRegistered THEN {"TEST", "TEST3"} ELSE {})
\* the test swap controller: halves the running amount, or TRIPLES it when its attribute says so
\* (a denomination-changing action may return MORE units than it received: 6 -> 18 decimals)
SwapOut(a, n) == IF a.at = "TEST3" THEN n * 3 ELSE n \div 2

\* valid bech32 with our prefix; all-upper-case bech32 is valid and denotes the same account, MIXED case
\* ("F1_MIXED", "ORB_MIXED"), a trailing blank ("F1_SPACE") and foreign prefixes are not addresses
ValidRcpt(to) == to \in Acct \cup {"ORB", "ORB_UPPER", "DUST", "AUTH", "F1_UPPER"}
RcptAcct(to)  == CASE to \in {"ORB", "ORB_UPPER"} -> "orb" [] to = "DUST" -> "dust" [] to = "F1_UPPER" -> "F1" [] OTHER -> to

FeeParses(f) == f.k # "null"                              \* a null list element is malformed
ActParsesOK(a) == /\ a.id # "NULL" /\ ActParses(a.id)
                  /\ a.at \in ActTypes \cup {"NONE"}
                  /\ \A i \in DOMAIN a.fees : FeeParses(a.fees[i])

ParseOK(in) == /\ in.mk = "PAYLOAD"
               /\ PidParses(in.fw.pid)
               /\ in.fw.at \in FwTypes \cup {"NONE"}
               /\ \A i \in DOMAIN in.acts : ActParsesOK(in.acts[i])

ActIds(in) == [i \in DOMAIN in.acts |-> ActOf(in.acts[i].id)]
RepeatsAction(in) == \E i, j \in DOMAIN in.acts : i < j /\
                        \* the code compares the numeric enum value: unknown numbers compare by spelling
                        (IF ActOf(in.acts[i].id) # "BAD" THEN ActOf(in.acts[i].id) = ActOf(in.acts[j].id)
                         ELSE in.acts[i].id = in.acts[j].id)

PayloadValid(in) == /\ ~RepeatsAction(in)
                    /\ \A i \in DOMAIN in.acts : ActOf(in.acts[i].id) # "BAD" /\ in.acts[i].at # "NONE"
                    /\ PidOf(in.fw.pid) # "BAD" /\ in.fw.at # "NONE"

-----------------------------------------------------------------------------
(* Structural mutations of a valid memo (C14).  mk = "MUT": the memo is the valid   *)
(* payload described by fw/acts with mutation in.op applied at JSON path in.aid.    *)
(* MustRefuse lists the mutants that are NECESSARILY ill-formed (a required element *)
(* null / absent / wrongly typed, a null list element); for the others the spec     *)
(* makes no claim beyond "an acknowledgement is returned".                          *)
Mutations == {"null", "absent", "emptyobj", "emptyarr", "string", "number", "bool", "negative", "two64", "huge",
              "emptystr", "longstr", "numstr", "dupkey", "dupsame", "deep", "deepobj", "rename", "unknown3",
              "trailgarbage", "trailobj", "trailbrace", "leadgarbage", "tworoots"}      \* (the last five apply to the whole document only)
DupMuts == {"dupkey", "dupsame"}
WrongTypeForList == Mutations \ (DupMuts \cup {"null", "absent", "emptyarr"})
PA == "orbiter.pre_actions"
A0 == "orbiter.pre_actions.0"
FI == "orbiter.pre_actions.0.attributes.fees_info"
FW == "orbiter.forwarding"
\* unknown fields are rejected wherever they appear (C15)
UnknownPaths == {"x", "orbiter.x", FW \o ".x", FW \o ".attributes.x", A0 \o ".x", A0 \o ".attributes.x", FI \o ".0.x",
                 FI \o ".0.basis_points.x"}
MustRefuseMut(path, m) ==
  CASE path \in UnknownPaths -> m \notin DupMuts \cup {"absent"}
    [] path \in {"root", "orbiter", FW, FW \o ".protocol_id", FW \o ".attributes", A0 \o ".id", A0 \o ".attributes",
                 FI \o ".0.recipient", FI \o ".0.basis_points", FI \o ".1.amount"} -> m \notin DupMuts
    [] path \in {FW \o ".attributes.@type", A0 \o ".attributes.@type"} -> m \notin DupMuts
    [] path \in {PA, FI} -> m \in WrongTypeForList
    [] path \in {A0, FI \o ".0", FI \o ".1"} -> m \notin DupMuts \cup {"absent"}
    [] path = FI \o ".0.basis_points.value" -> m \notin DupMuts \cup {"number", "numstr"}
    [] path = FI \o ".1.amount.value" -> m \in {"null", "absent", "string", "emptystr", "longstr", "emptyobj", "emptyarr", "bool", "deep", "deepobj"}
    \* (an empty JSON array is a legal spelling of empty bytes for the codec: no claim)
    [] path = FW \o ".passthrough_payload" -> m \in {"number", "bool", "emptyobj", "deep", "deepobj", "negative", "two64", "huge"}
    [] OTHER -> FALSE
MustRefuse(in) == in.mk = "MUT" /\ MustRefuseMut(in.aid, in.op)

\* amount encodings: ICS-20 and orbiter both parse the amount with sdkmath.NewIntFromString, which
\* (base 0) also accepts a leading 0 (octal), 0x.. and digit separators; the VALUE of those "odd"
\* spellings is outside the abstraction, so such inputs are out of the model (C16 judges them
\* on the observed coins alone).
AmtKind(in) == CASE in.amtc \in {"OK", "PLUS"} -> "num"
                 [] in.amtc \in {"LEADZERO", "HEX", "UNDERSCORE"} -> "odd"
                 [] in.amtc \in {"MAX256", "BIG"} -> "huge"
                 [] in.amtc = "DIGITS" -> "odd"          \* exact big amounts: judged by the BigNat predicates (C04, C02)
                 [] OTHER -> "bad"

ValidBaseDenom(b) == b \in NativeDenoms \cup {"uswap", "ufoo", "uatom", "ubig"}

-----------------------------------------------------------------------------
(* Fees (controller/action/fee.go, types/controller/action/fee.go)         *)

FeeEntryValid(f) ==
  /\ f.k \in {"bps", "fix"}
  /\ (f.k = "bps" => f.vc = "OK" /\ f.v \in 1..10000)
  /\ (f.k = "fix" => \/ (f.vc \in {"OK", "PLUS", "LEADZERO"} /\ f.v >= 1)
                     \/ f.vc = "BIG256")
  /\ ValidRcpt(f.to)

FeeHuge(f) == f.k = "fix" /\ f.vc = "BIG256"
FeeOf(A, f) == IF f.k = "bps" THEN (A * f.v) \div 10000 ELSE f.v

FeesValid(fs) == Len(fs) <= MaxFeeRecipients /\ \A i \in DOMAIN fs : FeeEntryValid(fs[i])
FeeAmounts(A, fs) == [i \in DOMAIN fs |-> FeeOf(A, fs[i])]
FeeTotal(A, fs) == SumSeq(FeeAmounts(A, fs))
FeeRefused(A, fs) == \/ ~FeesValid(fs)
                     \/ \E i \in DOMAIN fs : FeeHuge(fs[i])
                     \/ FeeTotal(A, fs) >= A

\* Fault points (instrumented mode, C03): every fallible downstream call is a named point; an
\* input carries a set F of armed points and a call fails when its point is armed.  `fired`
\* reports which armed point was actually reached (at most one: the first failure aborts).
FeePoint(k) == CASE k = 1 -> "feeSend1" [] k = 2 -> "feeSend2" [] k = 3 -> "feeSend3"
                 [] k = 4 -> "feeSend4" [] OTHER -> "feeSend5"

\* pay the positive fees in order; fails at the first armed or restricted send
RECURSIVE PayFees(_, _, _, _, _, _, _)
PayFees(s, d, A, fs, i, k, F) ==
  IF i > Len(fs) THEN [ok |-> TRUE, st |-> s, fired |-> {}]
  ELSE LET n == FeeOf(A, fs[i])  to == RcptAcct(fs[i].to) IN
       IF n <= 0 THEN PayFees(s, d, A, fs, i + 1, k, F)
       ELSE IF FeePoint(k + 1) \in F THEN [ok |-> FALSE, st |-> s, fired |-> {FeePoint(k + 1)}]
       ELSE IF Restricted(s, "orb", to, d) THEN [ok |-> FALSE, st |-> s, fired |-> {}]
       ELSE PayFees(Move(s, "orb", to, d, n), d, A, fs, i + 1, k + 1, F)

-----------------------------------------------------------------------------
(* Actions: executor + controllers, applied in payload order on the running coin *)

\* coin = [d |-> denom, n |-> amount]
RunAction(s, coin, a, F) ==
  LET id == ActOf(a.id)
      fail(w, fr) == [ok |-> FALSE, why |-> w, st |-> s, coin |-> coin, fired |-> fr]
  IN
  IF id \in s.pAct THEN fail("action-paused", {})
  ELSE IF id = "FEE" THEN
     IF a.at # "FEE" THEN fail("fee-attr-type", {})
     ELSE IF FeeRefused(coin.n, a.fees) THEN fail("fee-refused", {})
     ELSE LET p == PayFees(s, coin.d, coin.n, a.fees, 1, 0, F) IN
          IF ~p.ok THEN fail("fee-send", p.fired)
          ELSE IF "feeEmit" \in F THEN fail("fee-emit", {"feeEmit"})
          ELSE [ok |-> TRUE, why |-> "", st |-> p.st, fired |-> {},
                coin |-> [d |-> coin.d, n |-> coin.n - FeeTotal(coin.n, a.fees)]]
  ELSE \* SWAP
     IF ~SwapRegistered THEN fail("no-action-controller", {})
     ELSE IF "swapSend" \in F THEN fail("swap-send", {"swapSend"})
     ELSE IF SwapOut(a, coin.n) <= 0 THEN fail("swap-zero", {})
     ELSE IF Restricted(s, "orb", "pool", coin.d) THEN fail("swap-send", {})
     ELSE [ok |-> TRUE, why |-> "", fired |-> {},
           st |-> Move(Move(s, "orb", "pool", coin.d, coin.n), "pool", "orb", "uswap", SwapOut(a, coin.n)),
           coin |-> [d |-> "uswap", n |-> SwapOut(a, coin.n)]]

\* trace = the coin each executed action saw and left, in execution order (C06)
RECURSIVE RunActions(_, _, _, _, _, _)
RunActions(s, coin, acts, i, F, trace) ==
  IF i > Len(acts) THEN [ok |-> TRUE, why |-> "", st |-> s, coin |-> coin, fired |-> {}, trace |-> trace]
  ELSE LET r == RunAction(s, coin, acts[i], F)
           \* a refused action is recorded only when its controller was actually entered
           t == Append(trace, [id |-> ActOf(acts[i].id), cin |-> coin, cout |-> r.coin, err |-> ~r.ok])
       IN
       IF ~r.ok THEN [ok |-> FALSE, why |-> r.why, st |-> s, coin |-> coin, fired |-> r.fired,
                      trace |-> IF r.why \in {"action-paused", "no-action-controller"} THEN trace ELSE t]
       ELSE RunActions(r.st, r.coin, acts, i + 1, F, t)

-----------------------------------------------------------------------------
(* Forwarding: forwarder component + the three controllers + bridge models *)

CpOf(fw) == IF PidOf(fw.pid) = "INT" THEN "noble" ELSE ToString(fw.dom)

NoReq == <<>>
BaseReq == [route |-> "", withCaller |-> FALSE, from |-> "orb", amt |-> 0, denom |-> "",
            dom |-> 0, mint |-> "NONE", caller |-> "NONE", tok |-> "NONE", rcp |-> "NONE",
            hook |-> "NONE", gas |-> 0, maxfee |-> 0, mfd |-> "NONE", meta |-> "NONE", to |-> "NONE"]

\* the deposit-replacement request: the message's fields, the orbiter account as owner (C05)
ReplaceReq(in) == [BaseReq EXCEPT !.route = "CCTP_REPLACE", !.mint = in.fw.mint, !.caller = in.fw.caller, !.denom = "NONE",
                                  !.tok = "orig-msg-" \o in.who, !.rcp = "att-" \o in.who]

\* the request the payload asks for, given the post-action coin (C05)
ExpectedReq(fw, coin) ==
  CASE PidOf(fw.pid) = "CCTP" ->
         [BaseReq EXCEPT !.route = "CCTP", !.withCaller = (fw.caller # "NONE"), !.amt = coin.n,
                         !.denom = coin.d, !.dom = fw.dom, !.mint = fw.mint, !.caller = fw.caller]
    [] PidOf(fw.pid) = "HYP" ->
         [BaseReq EXCEPT !.route = "HYP", !.amt = coin.n, !.denom = coin.d, !.dom = fw.dom, !.tok = fw.tok,
                         !.rcp = fw.rcp, !.hook = fw.hook, !.gas = fw.gas, !.maxfee = fw.maxfee, !.mfd = fw.mfd, !.meta = fw.meta]
    [] OTHER ->
         [BaseReq EXCEPT !.route = "INT", !.amt = coin.n, !.denom = coin.d, !.to = RcptAcct(fw.to)]

ValidMeta(m) == m \in {"NONE", "0x", "0xAB", "0xabcd"}

Forward(s, fw, coin, F) ==
  LET pid == PidOf(fw.pid)
      fail(w) == [ok |-> FALSE, why |-> w, st |-> s, req |-> NoReq, fired |-> {}]
      fire(w, pt) == [ok |-> FALSE, why |-> w, st |-> s, req |-> NoReq, fired |-> {pt}]
  IN
  IF pid \in s.pProto THEN fail("protocol-paused")
  ELSE IF <<pid, CpOf(fw)>> \in s.pCC THEN fail("crosschain-paused")
  ELSE IF pid = "IBC" /\ fw.at # "INT" THEN fail("bad-crosschain-id")   \* "0" is not a channel id
  ELSE IF s.bal["orb"][coin.d] # coin.n THEN fail("balance-mismatch")
  ELSE IF pid = "IBC" THEN fail("no-forwarding-controller")
  ELSE IF fw.at # pid THEN fail("attr-type-mismatch")
  ELSE IF pid = "CCTP" THEN
     IF fw.dom = CctpNobleDomain \/ fw.mint = "NONE" THEN fail("cctp-attr-invalid")
     ELSE IF "cctpBurn" \in F THEN fire("fault", "cctpBurn")
     ELSE IF fw.mint = "MINT_ZERO" THEN fail("cctp-zero-mint")
     ELSE IF fw.caller = "CALLER_ZERO" THEN fail("cctp-zero-caller")    \* present but all-zero: CCTP refuses it
     ELSE IF fw.mint \notin Bytes32 \/ fw.caller \notin Bytes32 \cup {"NONE"} THEN fail("cctp-bytes-len")
     ELSE IF fw.dom \notin CctpDomains THEN fail("cctp-unknown-domain")
     ELSE IF coin.d # MintingDenom THEN fail("cctp-denom")
     ELSE IF s.env.cctpPaused THEN fail("cctp-paused")
     ELSE IF coin.n > BurnLimit THEN fail("cctp-burn-limit")
     ELSE IF Restricted(s, "orb", "cctp", coin.d) THEN fail("cctp-send")
     ELSE [ok |-> TRUE, why |-> "", req |-> <<ExpectedReq(fw, coin)>>, fired |-> {},
           st |-> [s EXCEPT !.bal["orb"][coin.d] = @ - coin.n, !.supply[coin.d] = @ - coin.n]]
  ELSE IF pid = "HYP" THEN
     IF fw.tok \notin Bytes32 \/ fw.rcp \notin Bytes32 \/ fw.hook \notin Bytes32 \cup {"NONE"}
        \/ fw.dom \in HypNobleDomains \/ ~ValidMeta(fw.meta) \/ fw.maxfee < 0 THEN fail("hyp-attr-invalid")
     ELSE IF "hypToken" \in F THEN fire("fault", "hypToken")
     ELSE IF fw.tok \notin HypTokens THEN fail("hyp-unknown-token")
     ELSE IF OriginDenom(fw.tok) # coin.d THEN fail("hyp-denom")
     ELSE IF "hypTransfer" \in F THEN fire("fault", "hypTransfer")
     ELSE IF Restricted(s, "orb", "warp", coin.d) THEN fail("hyp-send")
     ELSE IF fw.dom \notin HypRouters THEN fail("hyp-no-router")
     ELSE IF fw.hook \notin KnownHooks THEN fail("hyp-unknown-hook")
     ELSE IF fw.hook = "H_IGP" THEN
        \* InterchainGasPaymaster: the SENDER (the orbiter account) pays the required amount, at most
        \* max_fee, in the paymaster's denom - AFTER the collateral has been locked
        LET locked == Move(s, "orb", "warp", coin.d, coin.n)
            required == fw.gas
            offered == IF fw.mfd = IgpDenom THEN fw.maxfee ELSE 0
        IN IF fw.maxfee = 0 THEN fail("igp-maxfee-required")
           ELSE IF required > offered THEN fail("igp-exceeds-maxfee")
           ELSE IF required = 0 THEN fail("igp-zero-payment")
           ELSE IF locked.bal["orb"][IgpDenom] < required THEN fail("igp-insufficient-funds")
           ELSE [ok |-> TRUE, why |-> "", req |-> <<ExpectedReq(fw, coin)>>, fired |-> {},
                 st |-> Move(locked, "orb", "hyp", IgpDenom, required)]
     ELSE [ok |-> TRUE, why |-> "", req |-> <<ExpectedReq(fw, coin)>>, fired |-> {},
           st |-> Move(s, "orb", "warp", coin.d, coin.n)]
  ELSE \* INT
     IF ~ValidRcpt(fw.to) THEN fail("int-attr-invalid")
     ELSE IF RcptAcct(fw.to) = "orb" THEN fail("int-self")       \* the coin would stay on the orbiter account (C01)
     ELSE IF "intSend" \in F THEN fire("fault", "intSend")
     ELSE IF RcptAcct(fw.to) \in BankBlocked THEN fail("int-blocked")
     ELSE IF Restricted(s, "orb", RcptAcct(fw.to), coin.d) THEN fail("int-send")
     ELSE [ok |-> TRUE, why |-> "", req |-> <<ExpectedReq(fw, coin)>>, fired |-> {},
           st |-> Move(s, "orb", RcptAcct(fw.to), coin.d, coin.n)]

-----------------------------------------------------------------------------
(* Statistics (keeper/component/dispatcher/stats.go)                       *)

AmtKeyOf(e) == <<e.sp, e.sc, e.dp, e.dc, e.denom>>
CntKeyOf(e) == <<e.sp, e.sc, e.dp, e.dc>>

AddAmt(amts, sp, sc, dp, dc, denom, i, o) ==
  IF i <= 0 /\ o <= 0 /\ ~\E e \in amts : AmtKeyOf(e) = <<sp, sc, dp, dc, denom>>
  THEN amts \cup {[sp |-> sp, sc |-> sc, dp |-> dp, dc |-> dc, denom |-> denom, in |-> 0, out |-> 0]}
  ELSE
  LET old == {e \in amts : AmtKeyOf(e) = <<sp, sc, dp, dc, denom>>}
      oi  == IF old = {} THEN 0 ELSE (CHOOSE e \in old : TRUE).in
      oo  == IF old = {} THEN 0 ELSE (CHOOSE e \in old : TRUE).out
  IN (amts \ old) \cup {[sp |-> sp, sc |-> sc, dp |-> dp, dc |-> dc, denom |-> denom,
                         in |-> oi + (IF i > 0 THEN i ELSE 0), out |-> oo + (IF o > 0 THEN o ELSE 0)]}

AddCnt(cnts, sp, sc, dp, dc) ==
  LET old == {e \in cnts : CntKeyOf(e) = <<sp, sc, dp, dc>>}
      on  == IF old = {} THEN 0 ELSE (CHOOSE e \in old : TRUE).n
  IN (cnts \ old) \cup {[sp |-> sp, sc |-> sc, dp |-> dp, dc |-> dc, n |-> on + 1]}

\* SaturatedStats (a deliberate deviation, modelled as the code does it): BIG stands for the maximum of
\* the stored type - 2^64-1 for a count, 2^256-1 for a total (reachable through a validated genesis, or
\* by cumulative traffic).  An addition that would exceed it FAILS, the failure is tolerated by the
\* dispatcher (the transfer goes on), and whatever the statistics update had already written stays:
\* totals are written entry by entry (received denom first), the count last.
AmtOverflows(amts, key, i, o) == \E e \in amts : AmtKeyOf(e) = key /\ ((i > 0 /\ e.in >= BIG) \/ (o > 0 /\ e.out >= BIG))
CntStep(s, sp, sc, dp, dc) ==
  IF \E e \in s.cnt : CntKeyOf(e) = <<sp, sc, dp, dc>> /\ e.n >= BIG THEN s
  ELSE [s EXCEPT !.cnt = AddCnt(s.cnt, sp, sc, dp, dc)]
\* one successful transfer: received coin cin from (sp, sc), forwarded coin cout to (dp, dc)
AddTransfer(s, sp, sc, dp, dc, cin, cout) ==
  IF cin.d = cout.d
  THEN IF AmtOverflows(s.amt, <<sp, sc, dp, dc, cin.d>>, cin.n, cout.n) THEN s
       ELSE CntStep([s EXCEPT !.amt = AddAmt(s.amt, sp, sc, dp, dc, cin.d, cin.n, cout.n)], sp, sc, dp, dc)
  ELSE IF AmtOverflows(s.amt, <<sp, sc, dp, dc, cin.d>>, cin.n, 0) THEN s
       ELSE LET a1 == AddAmt(s.amt, sp, sc, dp, dc, cin.d, cin.n, 0) IN
            IF AmtOverflows(a1, <<sp, sc, dp, dc, cout.d>>, 0, cout.n) THEN [s EXCEPT !.amt = a1]
            ELSE CntStep([s EXCEPT !.amt = AddAmt(a1, sp, sc, dp, dc, cout.d, 0, cout.n)], sp, sc, dp, dc)

-----------------------------------------------------------------------------
(* Receiving a packet                                                      *)

DecodesToOrb(r) == r \in {"ORB", "ORB_UPPER"}
RcvAcct(r) == CASE DecodesToOrb(r) -> "orb" [] r = "DUST" -> "dust" [] OTHER -> r
RcvDecodes(r) == r \in Acct \cup {"ORB", "ORB_UPPER", "DUST"}
IsICS20(in) == in.dn # "RAWDATA"
\* denom classes that are one-hop vouchers of the packet's own (source port, source channel):
\* "RET" over a counterparty port called transfer, "RETPORT" over a counterparty port with another name
RetClasses == {"RET", "RETPORT"}

\* The design: every ICS-20 packet whose receiver DECODES to the module account is an orbiter packet.
ForOrbiter(in) == IsICS20(in) /\ DecodesToOrb(in.rcv)

Res(ok, why, s, req) == [ok |-> ok, why |-> why, st |-> s, req |-> req, fired |-> {}, trace |-> <<>>]
ResF(ok, why, s, req, fired, trace) == [ok |-> ok, why |-> why, st |-> s, req |-> req, fired |-> fired, trace |-> trace]

\* blockibc: the FTF's own IBC middleware, outermost in simapp's stack
BlockIBCRefuses(s, in) ==
  \/ ~IsICS20(in)            \* (random bytes that happen to be ICS-20 JSON are out of the model)
  \/ /\ in.base = MintingDenom
     /\ \/ s.env.ftfPaused
        \/ ~RcvDecodes(in.rcv) /\ in.rcv # "OTHER_HRP"
        \/ RcvDecodes(in.rcv) /\ RcvAcct(in.rcv) \in s.env.blocked

\* plain ICS-20 (ibc-go transfer keeper OnRecvPacket)
PlainICS20(s, in) ==
  LET to == RcvAcct(in.rcv) IN
  IF AmtKind(in) = "odd" THEN Res(FALSE, "out-of-model", s, NoReq)
  ELSE IF AmtKind(in) = "bad" \/ in.amt < 1 \/ ~RcvDecodes(in.rcv) \/ ~ValidBaseDenom(in.base)
     THEN Res(FALSE, "ics20-invalid", s, NoReq)
  ELSE IF in.dn \in RetClasses THEN      \* returning token: un-escrow
     IF to \in BankBlocked THEN Res(FALSE, "ics20-blocked-receiver", s, NoReq)
     ELSE IF AmtKind(in) = "huge" \/ in.base \notin Escrowable \/ s.bal[Escrow(in.chan)][in.base] < in.amt
        THEN Res(FALSE, "ics20-insufficient-escrow", s, NoReq)
     ELSE IF Restricted(s, Escrow(in.chan), to, in.base) THEN Res(FALSE, "ics20-restricted", s, NoReq)
     ELSE Res(TRUE, "", Move(s, Escrow(in.chan), to, in.base, in.amt), NoReq)
  ELSE IF in.dn \in {"MULTI", "RETRET"} THEN Res(FALSE, "ics20-insufficient-escrow", s, NoReq)
  ELSE \* token native to the sender (or foreign trace): mint a voucher
     IF to \in BankBlocked THEN Res(FALSE, "ics20-blocked-receiver", s, NoReq)
     ELSE IF AmtKind(in) = "huge" THEN Res(FALSE, "out-of-model", s, NoReq)
     ELSE Res(TRUE, "", [s EXCEPT !.bal[to]["ibc"] = @ + in.amt, !.supply["ibc"] = @ + in.amt], NoReq)

RecvOrbiter(s0, in) ==
  LET d == in.base
      F == ToSet(in.faults)
      fail(w) == Res(FALSE, w, s0, NoReq)
      fire(pt) == ResF(FALSE, "fault", s0, NoReq, {pt}, <<>>)
  IN
  IF in.mk \in {"MUT", "RANDOM", "RAW"} THEN
     (IF MustRefuse(in) THEN fail("malformed") ELSE Res(FALSE, "out-of-model", s0, NoReq))
  ELSE IF ~ParseOK(in) THEN fail("parse")
  ELSE IF ~PayloadValid(in) THEN fail("payload-invalid")
  ELSE IF AmtKind(in) = "bad" THEN fail("amount")
  ELSE IF AmtKind(in) = "odd" THEN Res(FALSE, "out-of-model", s0, NoReq)
  ELSE IF in.dn \notin RetClasses THEN fail("denom-not-returning-native")
  ELSE IF ~ValidBaseDenom(d) \/ (AmtKind(in) = "num" /\ in.amt < 1) THEN fail("transfer-attributes")
  ELSE IF in.fw.pt > (IF s0.hasParams THEN s0.maxPT ELSE 0) THEN fail("passthrough-too-long")
  ELSE IF d \in Denom /\ s0.bal["orb"][d] > 0 /\ "sweep" \in F THEN fire("sweep")
  ELSE IF d \in Denom /\ s0.bal["orb"][d] > 0 /\ Restricted(s0, "orb", "dust", d) THEN fail("sweep")
  ELSE IF "ics20" \in F THEN fire("ics20")
  ELSE
  LET s1 == IF d \in Denom THEN Move(s0, "orb", "dust", d, s0.bal["orb"][d]) ELSE s0     \* clearOrbiterBalance
      r2 == PlainICS20(s1, in)
  IN
  IF ~r2.ok THEN fail(r2.why)
  ELSE
  LET r3 == RunActions(r2.st, [d |-> d, n |-> in.amt], in.acts, 1, F, <<>>) IN
  IF ~r3.ok THEN ResF(FALSE, r3.why, s0, NoReq, r3.fired, r3.trace)
  ELSE
  LET r4 == Forward(r3.st, in.fw, r3.coin, F) IN
  IF ~r4.ok THEN ResF(FALSE, r4.why, s0, NoReq, r4.fired, r3.trace)
  ELSE IF "processedEmit" \in F THEN ResF(FALSE, "fault", s0, NoReq, {"processedEmit"}, r3.trace)
  ELSE ResF(TRUE, "",
            AddTransfer(r4.st, "IBC", SrcCp(in.chan), PidOf(in.fw.pid), CpOf(in.fw),
                        [d |-> d, n |-> in.amt], r3.coin),
            r4.req, {}, r3.trace)

Recv(s, in) ==
  IF BlockIBCRefuses(s, in) THEN Res(FALSE, "blockibc", s, NoReq)
  ELSE IF ForOrbiter(in) THEN RecvOrbiter(s, in)
  ELSE IF "ics20" \in ToSet(in.faults) THEN ResF(FALSE, "fault", s, NoReq, {"ics20"}, <<>>)
  ELSE PlainICS20(s, in)

-----------------------------------------------------------------------------
(* Authority messages                                                      *)

IsAuthority(signer) == signer = "AUTH"
PauseRpcs == {"PauseProtocol", "UnpauseProtocol", "PauseCrossChains", "UnpauseCrossChains"}
ActionRpcs == {"PauseAction", "UnpauseAction"}
AllRpcs == PauseRpcs \cup ActionRpcs \cup {"UpdateParams", "ReplaceDepositForBurn"}

RECURSIVE PauseBatch(_, _, _, _)
PauseBatch(set, pid, cps, i) == \* sequential set; fails on an id that is already paused (incl. duplicates)
  IF i > Len(cps) THEN [ok |-> TRUE, set |-> set]
  ELSE IF <<pid, cps[i]>> \in set THEN [ok |-> FALSE, set |-> set]
  ELSE PauseBatch(set \cup {<<pid, cps[i]>>}, pid, cps, i + 1)

RECURSIVE UnpauseBatch(_, _, _, _)
UnpauseBatch(set, pid, cps, i) ==
  IF i > Len(cps) THEN [ok |-> TRUE, set |-> set]
  ELSE IF <<pid, cps[i]>> \notin set THEN [ok |-> FALSE, set |-> set]
  ELSE UnpauseBatch(set \ {<<pid, cps[i]>>}, pid, cps, i + 1)

AdminCore(s, in) ==
  LET fail(w) == Res(FALSE, w, s, NoReq) IN
  IF ~IsAuthority(in.signer) THEN fail("unauthorized")
  ELSE CASE in.rpc = "PauseProtocol" ->
         IF in.pid \notin ProtoNames THEN fail("bad-protocol")
         ELSE IF in.pid \in s.pProto THEN fail("already-paused")
         ELSE Res(TRUE, "", [s EXCEPT !.pProto = @ \cup {in.pid}], NoReq)
    [] in.rpc = "UnpauseProtocol" ->
         IF in.pid \notin ProtoNames THEN fail("bad-protocol")
         ELSE IF in.pid \notin s.pProto THEN fail("not-paused")
         ELSE Res(TRUE, "", [s EXCEPT !.pProto = @ \ {in.pid}], NoReq)
    [] in.rpc = "PauseCrossChains" ->
         IF in.pid \notin ProtoNames THEN fail("bad-protocol")
         ELSE IF Len(in.cps) > MaxBatch THEN fail("batch-too-large")
         ELSE IF Len(in.cps) = 0 THEN      \* EmptyBatchPausesProtocol: the code falls into pauseProtocol
              IF in.pid \in s.pProto THEN fail("already-paused")
              ELSE Res(TRUE, "", [s EXCEPT !.pProto = @ \cup {in.pid}], NoReq)
         ELSE IF \E i \in DOMAIN in.cps : ~ValidCp(in.pid, in.cpc[i]) THEN fail("bad-counterparty")
         ELSE LET b == PauseBatch(s.pCC, in.pid, in.cps, 1) IN
              IF ~b.ok THEN fail("already-paused") ELSE Res(TRUE, "", [s EXCEPT !.pCC = b.set], NoReq)
    [] in.rpc = "UnpauseCrossChains" ->
         IF in.pid \notin ProtoNames THEN fail("bad-protocol")
         ELSE IF Len(in.cps) > MaxBatch THEN fail("batch-too-large")
         ELSE IF Len(in.cps) = 0 THEN
              IF in.pid \notin s.pProto THEN fail("not-paused")
              ELSE Res(TRUE, "", [s EXCEPT !.pProto = @ \ {in.pid}], NoReq)
         ELSE IF \E i \in DOMAIN in.cps : ~ValidCp(in.pid, in.cpc[i]) THEN fail("bad-counterparty")
         ELSE LET b == UnpauseBatch(s.pCC, in.pid, in.cps, 1) IN
              IF ~b.ok THEN fail("not-paused") ELSE Res(TRUE, "", [s EXCEPT !.pCC = b.set], NoReq)
    [] in.rpc = "PauseAction" ->
         IF in.aid \notin ActionNames THEN fail("bad-action")
         ELSE IF in.aid \in s.pAct THEN fail("already-paused")
         ELSE Res(TRUE, "", [s EXCEPT !.pAct = @ \cup {in.aid}], NoReq)
    [] in.rpc = "UnpauseAction" ->
         IF in.aid \notin ActionNames THEN fail("bad-action")
         ELSE IF in.aid \notin s.pAct THEN fail("not-paused")
         ELSE Res(TRUE, "", [s EXCEPT !.pAct = @ \ {in.aid}], NoReq)
    [] in.rpc = "UpdateParams" ->
         Res(TRUE, "", [s EXCEPT !.maxPT = (IF in.v < 0 THEN BIG ELSE in.v), !.hasParams = TRUE], NoReq)
    [] in.rpc = "ReplaceDepositForBurn" ->
         \* reaches CCTP with exactly the message's fields; the test-bed has no attested message,
         \* so CCTP itself refuses it
         Res(FALSE, "cctp-refuses-replace", s,
             <<ReplaceReq(in)>>)
    [] OTHER -> fail("unknown-rpc")

\* every pause message emits an event after the state change; a failing emit fails the message
Admin(s, in) ==
  LET r == AdminCore(s, in) IN
  IF r.ok /\ in.rpc \in PauseRpcs \cup ActionRpcs /\ "adminEmit" \in ToSet(in.faults)
  THEN ResF(FALSE, "fault", s, NoReq, {"adminEmit"}, <<>>)
  ELSE r

-----------------------------------------------------------------------------
(* Deposits, environment, re-import                                        *)

Deposit(s, in) ==
  LET from == IF in.who = "" THEN "M" ELSE in.who IN
  IF in.amt < 1 \/ s.bal[from][in.denom] < in.amt \/ Restricted(s, from, "orb", in.denom)
  THEN Res(FALSE, "deposit-refused", s, NoReq)
  ELSE Res(TRUE, "", Move(s, from, "orb", in.denom, in.amt), NoReq)

EnvStep(s, in) ==
  CASE in.op = "ftfPause"   -> Res(TRUE, "", [s EXCEPT !.env.ftfPaused = TRUE], NoReq)
    [] in.op = "ftfUnpause" -> Res(TRUE, "", [s EXCEPT !.env.ftfPaused = FALSE], NoReq)
    [] in.op = "block"   -> IF in.who \in s.env.blocked THEN Res(FALSE, "env", s, NoReq)
                            ELSE Res(TRUE, "", [s EXCEPT !.env.blocked = @ \cup {in.who}], NoReq)
    [] in.op = "unblock" -> IF in.who \notin s.env.blocked THEN Res(FALSE, "env", s, NoReq)
                            ELSE Res(TRUE, "", [s EXCEPT !.env.blocked = @ \ {in.who}], NoReq)
    [] in.op = "cctpPause"   -> Res(TRUE, "", [s EXCEPT !.env.cctpPaused = TRUE], NoReq)
    [] in.op = "cctpUnpause" -> Res(TRUE, "", [s EXCEPT !.env.cctpPaused = FALSE], NoReq)
    [] in.op = "nextblock" -> Res(TRUE, "", s, NoReq)    \* a later block of the same chain: nothing in the state depends on height or time
    \* some of the swap's output denomination left Noble over channel-0 earlier: the escrow now holds it
    \* and it can RETURN like any native denomination
    [] in.op = "escrowSwap" -> Res(TRUE, "", Move(s, "pool", "esc0", "uswap", SwapEscrowed), NoReq)
    [] in.op = "bigdust" -> Res(TRUE, "", s, NoReq)      \* 2^64 units of the (untracked) big denom deposited on the orbiter account
    [] in.op = "bigback" -> Res(TRUE, "", s, NoReq)      \* big-denom coins go out over IBC again (untracked denom)
    [] OTHER -> Res(FALSE, "env", s, NoReq)

-----------------------------------------------------------------------------
(* Genesis documents (C17): which documents validation accepts, and what they initialise to *)

NoRepeats(seq) == \A i, j \in DOMAIN seq : i # j => seq[i] # seq[j]
\* statistics entries of the document grid use the test-bed's counterparties only
ManyChannels == {"channel-" \o ToString(n) : n \in 0..199}
ManyDomains == {ToString(n) : n \in 0..150}
StatIdValid(p, c) == p \in ProtoNames /\ (p = "INT" \/ c \in CpUniverse[p] \/ (p = "IBC" /\ c \in ManyChannels)
                                          \/ (p \in {"CCTP", "HYP"} /\ c \in ManyDomains))
GenValid(g) ==
  /\ \A i \in DOMAIN g.pp : g.pp[i] \in ProtoNames
  /\ NoRepeats(g.pp)                                     \* a repeated entry cannot be initialised
  /\ \A i \in DOMAIN g.pcc : g.pcc[i].p \in ProtoNames /\ ValidCp(g.pcc[i].p, g.pcc[i].chars)
  /\ NoRepeats([i \in DOMAIN g.pcc |-> <<g.pcc[i].p, g.pcc[i].cp>>])
  /\ \A i \in DOMAIN g.pa : g.pa[i] \in ActionNames
  /\ NoRepeats(g.pa)
  /\ \A i \in DOMAIN g.amts : LET a == g.amts[i] IN
        a.denom # "" /\ StatIdValid(a.sp, a.sc) /\ StatIdValid(a.dp, a.dc) /\ a.in >= 0 /\ a.out >= 0 /\ (a.in > 0 \/ a.out > 0)
  /\ \A i \in DOMAIN g.cnts : LET c == g.cnts[i] IN StatIdValid(c.sp, c.sc) /\ StatIdValid(c.dp, c.dc) /\ c.n > 0
\* repeated statistics keys: the last entry wins (the setter overwrites)
LastWins(seq, key(_)) == {seq[i] : i \in {j \in DOMAIN seq : \A k \in DOMAIN seq : k > j => key(seq[k]) # key(seq[j])}}
GenDoc(s, in) ==
  LET g == in.g IN
  IF ~GenValid(g) THEN Res(FALSE, "genesis-invalid", s, NoReq)
  ELSE Res(TRUE, "", [s EXCEPT !.pProto = ToSet(g.pp),
                               !.pCC = {<<g.pcc[i].p, g.pcc[i].cp>> : i \in DOMAIN g.pcc},
                               !.pAct = ToSet(g.pa),
                               !.maxPT = (IF g.params < 0 THEN BIG ELSE g.params), !.hasParams = TRUE,
                               !.amt = LastWins(g.amts, AmtKeyOf), !.cnt = LastWins(g.cnts, CntKeyOf)], NoReq)

-----------------------------------------------------------------------------
(* Acknowledgement and timeout of packets Noble sent: passed through to ICS-20 (refund) *)

Refund(s, in) ==
  LET to == RcvAcct(in.who) IN
  IF in.dn = "RAWDATA" \/ AmtKind(in) = "bad" \/ ~RcvDecodes(in.who) THEN Res(FALSE, "refund-invalid", s, NoReq)
  ELSE IF AmtKind(in) # "num" THEN Res(FALSE, "out-of-model", s, NoReq)
  ELSE IF in.dn = "VOUCHER" THEN      \* a voucher Noble minted: mint it back
     Res(TRUE, "", [s EXCEPT !.bal[to]["ibc"] = @ + in.amt, !.supply["ibc"] = @ + in.amt], NoReq)
  ELSE IF in.base \notin Escrowable \/ s.bal[Escrow(in.chan)][in.base] < in.amt \/ in.amt < 1
     THEN Res(FALSE, "refund-insufficient-escrow", s, NoReq)
  ELSE IF Restricted(s, Escrow(in.chan), to, in.base) THEN Res(FALSE, "refund-restricted", s, NoReq)
  ELSE Res(TRUE, "", Move(s, Escrow(in.chan), to, in.base, in.amt), NoReq)

AckPkt(s, in) ==
  CASE in.op = "ackOk" -> IF in.dn = "RAWDATA" THEN Res(FALSE, "ack-invalid", s, NoReq) ELSE Res(TRUE, "", s, NoReq)
    [] in.op = "ackGarbage" -> Res(FALSE, "ack-invalid", s, NoReq)
    [] OTHER -> Refund(s, in)

-----------------------------------------------------------------------------
(* Statistics queries (C13): a model walk over the matching entries *)

CntAsEntries(s) == {[sp |-> e.sp, sc |-> e.sc, dp |-> e.dp, dc |-> e.dc, denom |-> "", in |-> e.n, out |-> 0] : e \in s.cnt}
QStats(s, q) == IF q.kind = "amounts" THEN s.amt ELSE CntAsEntries(s)
Matching(s, q) == {e \in QStats(s, q) : (q.by = "src" => e.sp = q.pid) /\ (q.by = "dst" => e.dp = q.pid)}
DirectHit(s, q) == {e \in QStats(s, q) : <<e.sp, e.sc, e.dp, e.dc>> = <<q.sp, q.sc, q.dp, q.dc>> /\ (q.kind = "amounts" => e.denom = q.denom)
                                        /\ (e.in > 0 \/ e.out > 0)}
EffLimit(q) == IF q.limit = 0 THEN 100 ELSE q.limit
RECURSIVE Chunk(_, _)
Chunk(seq, n) == IF Len(seq) <= n THEN <<seq>> ELSE <<SubSeq(seq, 1, n)>> \o Chunk(SubSeq(seq, n + 1, Len(seq)), n)
ModelPages(s, q) ==
  IF q.by = "direct" THEN
     (IF DirectHit(s, q) = {} THEN <<[items |-> <<>>, hasNext |-> FALSE, total |-> 0, err |-> TRUE]>>
      ELSE <<[items |-> SetToSeq(DirectHit(s, q)), hasNext |-> FALSE, total |-> 0, err |-> FALSE]>>)
  ELSE IF q.pid \notin ProtoNames THEN <<[items |-> <<>>, hasNext |-> FALSE, total |-> 0, err |-> TRUE]>>
  ELSE LET all == SetToSeq(Matching(s, q))  ch == Chunk(all, EffLimit(q)) IN
       [i \in DOMAIN ch |-> [items |-> ch[i], hasNext |-> i < Len(ch),
                             total |-> IF q.countTotal /\ (i = 1 \/ q.walk = "offset") THEN Len(all) ELSE 0, err |-> FALSE]]

\* export -> validate -> initialise a fresh module -> export: the identity on the module's state
Reimport(s, in) == Res(TRUE, "", s, NoReq)

ApplyCommitted(s, in) ==
  CASE in.t = "recv"     -> Recv(s, in)
    [] in.t = "admin"    -> Admin(s, in)
    [] in.t = "deposit"  -> Deposit(s, in)
    [] in.t = "env"      -> EnvStep(s, in)
    [] in.t = "reimport" -> Reimport(s, in)
    [] in.t = "gendoc"   -> GenDoc(s, in)
    [] in.t = "ackpkt"   -> AckPkt(s, in)
    [] in.t = "timeout"  -> Refund(s, in)
    [] OTHER             -> Res(TRUE, "", s, NoReq)       \* queries are read-only

\* A discarded step (Inputs!Discarded) runs exactly like a committed one - same outcome, same requests,
\* same movements inside its branch - and then its branch is dropped: the state is the pre-state.
Apply(s, in) == LET r == ApplyCommitted(s, in) IN IF in.disc THEN [r EXCEPT !.st = s] ELSE r

-----------------------------------------------------------------------------
(* Stage order (micro-steps), observable without a hook: the ORDERED list of bank movements that   *)
(* touch the orbiter account during a successful transfer - sweep of the residue, ICS-20 credit,    *)
(* fee payments in entry order (actions in payload order), swap legs, the route's own movement,     *)
(* the paymaster fee.  Compared with the bank events of the callback (conformance group "xfers").   *)
XF(from, to, d, n) == [from |-> from, to |-> to, denom |-> d, amt |-> n]
RECURSIVE XfFees(_, _, _)
XfFees(coin, fs, i) == IF i > Len(fs) THEN <<>>
                       ELSE (IF FeeOf(coin.n, fs[i]) > 0 THEN <<XF("orb", RcptAcct(fs[i].to), coin.d, FeeOf(coin.n, fs[i]))>> ELSE <<>>)
                            \o XfFees(coin, fs, i + 1)
RECURSIVE XfActs(_, _, _)
XfActs(coin, acts, i) ==
  IF i > Len(acts) THEN [xf |-> <<>>, coin |-> coin]
  ELSE LET a == acts[i] IN
       IF ActOf(a.id) = "FEE"
       THEN LET rest == XfActs([d |-> coin.d, n |-> coin.n - FeeTotal(coin.n, a.fees)], acts, i + 1)
            IN [xf |-> XfFees(coin, a.fees, 1) \o rest.xf, coin |-> rest.coin]
       ELSE LET rest == XfActs([d |-> "uswap", n |-> SwapOut(a, coin.n)], acts, i + 1)
            IN [xf |-> <<XF("orb", "pool", coin.d, coin.n), XF("pool", "orb", "uswap", SwapOut(a, coin.n))>> \o rest.xf, coin |-> rest.coin]
\* for an orbiter transfer that succeeds
XfersOf(s0, in) ==
  LET d == in.base  e == Escrow(in.chan)
      sweep == IF s0.bal["orb"][d] > 0 THEN <<XF("orb", "dust", d, s0.bal["orb"][d])>> ELSE <<>>
      acts == XfActs([d |-> d, n |-> in.amt], in.acts, 1)
      c == acts.coin
      pid == PidOf(in.fw.pid)
      fwd == CASE pid = "CCTP" -> <<XF("orb", "cctp", c.d, c.n)>>
               [] pid = "HYP" -> <<XF("orb", "warp", c.d, c.n)>> \o (IF in.fw.hook = "H_IGP" THEN <<XF("orb", "hyp", IgpDenom, in.fw.gas)>> ELSE <<>>)
               [] OTHER -> <<XF("orb", RcptAcct(in.fw.to), c.d, c.n)>>
  IN sweep \o <<XF(e, "orb", d, in.amt)>> \o acts.xf \o fwd

\* ... and the ordered typed events of the callback that mark stages: ICS-20's packet event, one fee
\* event per fee action, the bridge's events, the paymaster's gas payment, and - last - the
\* payload-processed event.
StageEventTypes == {"fungible_token_packet", "noble.orbiter.controller.action.v2.EventFeeAction", "circle.cctp.v1.DepositForBurn",
                    "hyperlane.warp.v1.EventSendRemoteTransfer", "hyperlane.core.post_dispatch.v1.EventGasPayment",
                    "noble.orbiter.component.adapter.v1.EventPayloadProcessed"}
EventsOf(in) ==
  LET pid == PidOf(in.fw.pid)
      fees == [i \in DOMAIN SelectSeq(in.acts, LAMBDA a : ActOf(a.id) = "FEE") |-> "noble.orbiter.controller.action.v2.EventFeeAction"]
  IN <<"fungible_token_packet">> \o fees
     \o (CASE pid = "CCTP" -> <<"circle.cctp.v1.DepositForBurn">>
            [] pid = "HYP" -> <<"hyperlane.warp.v1.EventSendRemoteTransfer">>
                              \o (IF in.fw.hook = "H_IGP" THEN <<"hyperlane.core.post_dispatch.v1.EventGasPayment">> ELSE <<>>)
            [] OTHER -> <<>>)
     \o <<"noble.orbiter.component.adapter.v1.EventPayloadProcessed">>

-----------------------------------------------------------------------------
(* Step records.  S == [pre, in, post, ok, panic, req, ctl, orbUp, othersSame, x]            *)
(* In model checking every field is computed by the specification; in trace validation pre, *)
(* post, ok, panic, req, ctl, orbUp, othersSame come from the recorded execution.           *)

NoPause(s) == [s EXCEPT !.pProto = {}, !.pCC = {}, !.pAct = {}]
Clean(s)   == [s EXCEPT !.bal["orb"] = [d \in Denom |-> 0]]
NoActs(in) == [in EXCEPT !.acts = <<>>]
NoPt(in)   == [in EXCEPT !.fw.pt = 0]

OrbGroups(s) == [pProto |-> s.pProto, pCC |-> s.pCC, pAct |-> s.pAct, maxPT |-> s.maxPT,
                 hasParams |-> s.hasParams, amt |-> s.amt, cnt |-> s.cnt]

\* what the transfer did, independent of what was lying on the orbiter account (C11)
Outcome(pre, r) ==
  [ok |-> r.ok, req |-> r.req,
   credits |-> [a \in Acct \ {"orb", "dust"} |-> [d \in Denom |-> r.st.bal[a][d] - pre.bal[a][d]]],
   supply  |-> [d \in Denom |-> r.st.supply[d] - pre.supply[d]],
   stats   |-> [amt |-> r.st.amt, cnt |-> r.st.cnt]]

\* what the pause / parameter queries report in state s (they are views, C08/C09/C18)
QueryView(s) ==
  [ qProto  |-> s.pProto,
    isProto |-> {[p |-> p, ok |-> TRUE, v |-> p \in s.pProto] : p \in ProtoNames},
    isCC    |-> UNION {{[p |-> p, c |-> c, ok |-> TRUE, v |-> <<p, c>> \in s.pCC] : c \in CpUniverse[p]} : p \in ProtoNames},
    qCC     |-> {[p |-> p, ok |-> TRUE, dup |-> FALSE, cps |-> {pc[2] : pc \in {x \in s.pCC : x[1] = p}}] : p \in ProtoNames},
    qAct    |-> s.pAct,
    isAct   |-> {[p |-> a, ok |-> TRUE, v |-> a \in s.pAct] : a \in ActionNames},
    qParams |-> IF s.hasParams THEN s.maxPT ELSE 0, qParamsOk |-> TRUE ]

DefFwS == [pid |-> "INT", at |-> "INT", dom |-> 0, mint |-> "NONE", caller |-> "NONE", tok |-> "NONE",
           rcp |-> "NONE", hook |-> "NONE", gas |-> 0, maxfee |-> 0, mfd |-> "uusdc", meta |-> "NONE", to |-> "U", pt |-> 0]
\* identifier entry points (C20): what each entry point answers for counterparty spelling e
PidNum(p) == CASE p = "IBC" -> "1" [] p = "CCTP" -> "2" [] p = "HYP" -> "3" [] p = "INT" -> "4" [] OTHER -> "0"
\* two valid identifiers of the protocol that no grid spelling equals (batch entry points)
FreshCps(p) == CASE p = "IBC" -> {"channel-4000000", "channel-4000001"} [] p = "INT" -> {"fresh-a", "fresh-b"} [] OTHER -> {"4000000", "4000001"}
IdentModel(s, in) ==
  [i \in DOMAIN in.ids |->
     LET e == in.ids[i]
         valid == in.pid \in ProtoNames /\ ValidCp(in.pid, e.chars)
         batch == valid /\ e.cp \notin FreshCps(in.pid) /\ ~\E c \in FreshCps(in.pid) \cup {e.cp} : <<in.pid, c>> \in s.pCC
         run == valid /\ e.dom >= 0 /\ in.pid \in {"CCTP", "HYP"}
         probe == IF in.pid = "CCTP" THEN [DefFwS EXCEPT !.pid = "CCTP", !.at = "CCTP", !.dom = e.dom, !.mint = "MINT_A"]
                  ELSE [DefFwS EXCEPT !.pid = "HYP", !.at = "HYP", !.dom = e.dom, !.tok = "T1", !.rcp = "R_A"]
     IN [cp |-> e.cp, chars |-> e.chars, dom |-> e.dom, newOk |-> valid, id |-> PidNum(in.pid) \o ":" \o e.cp,
         parseOk |-> valid, parsePid |-> IF valid THEN in.pid ELSE "", parseCp |-> IF valid THEN e.cp ELSE "",
         pauseOk |-> valid /\ <<in.pid, e.cp>> \notin s.pCC, unpauseOk |-> valid /\ <<in.pid, e.cp>> \notin s.pCC,
         queryOk |-> valid, statsOk |-> valid, genesisOk |-> valid,
         probeRun |-> run /\ <<in.pid, e.cp>> \notin s.pCC, probeOk |-> FALSE,
         ctlOk |-> run /\ <<in.pid, e.cp>> \notin s.pCC
                   /\ Recv(s, [t |-> "recv", chan |-> 0, rcv |-> "ORB", dn |-> "RET", base |-> "uusdc", amt |-> 1000,
                               amtc |-> "OK", mk |-> "PAYLOAD", fw |-> probe, acts |-> <<>>, faults |-> <<>>,
                               aid |-> "", op |-> ""]).ok,
         listed |-> valid /\ <<in.pid, e.cp>> \notin s.pCC /\ ~\E x \in s.pCC : x[1] = in.pid,
         batchFirstOk |-> batch, batchMidOk |-> batch]]

ModelStep(pre, in) ==
  LET r == Apply(pre, in)
      isRecv == in.t = "recv"
      nof == in.faults = <<>>          \* control runs are only compared with fault-free main runs
      c(run, rr, p) == [run |-> run, ok |-> rr.ok, out |-> Outcome(p, rr)]
      \* control runs are fault-free
  IN [ pre |-> pre, in |-> in, post |-> r.st, ok |-> r.ok, panic |-> FALSE, why |-> r.why,
       req |-> r.req, reached |-> <<>>,
       ctl |-> [ nopause |-> c(isRecv /\ nof, Apply(NoPause(pre), in), NoPause(pre)),
                 clean   |-> c(isRecv /\ nof, Apply(Clean(pre), in), Clean(pre)),
                 noacts  |-> c(isRecv /\ nof /\ in.mk = "PAYLOAD" /\ Len(in.acts) > 0, Apply(pre, NoActs(in)), pre),
                 nopt    |-> c(isRecv /\ nof /\ in.mk = "PAYLOAD" /\ in.fw.pt > 0, Apply(pre, NoPt(in)), pre) ],
       out |-> Outcome(pre, r),
       orbUp |-> \E d \in Denom : r.st.bal["orb"][d] > pre.bal["orb"][d],
       othersSame |-> TRUE,
       fullReq |-> TRUE,
       fired |-> r.fired,
       hasTrace |-> TRUE, perAction |-> r.trace,
       hasQ |-> in.t = "admin",
       q |-> QueryView(r.st),
       x |-> [exportOk |-> TRUE, validateOk |-> TRUE, initOk |-> TRUE, sameExport |-> TRUE, fullOk |-> TRUE, sameBeh |-> TRUE],
       hasBig |-> FALSE, big |-> [esc |-> <<0>>, orb |-> <<0>>, orbPre |-> <<0>>, dust |-> <<0>>, F1 |-> <<0>>, F2 |-> <<0>>, U |-> <<0>>],
       hasDiff |-> isRecv \/ in.t \in {"ackpkt", "timeout"},
       diff |-> [ackEq |-> TRUE, eventsEq |-> TRUE, stateEq |-> TRUE, appVersionEq |-> TRUE],
       pages |-> IF in.t = "query" THEN ModelPages(pre, in.q) ELSE <<>>,
       hasDig |-> FALSE, dig |-> "", peers |-> <<>>,
       hasParse |-> isRecv /\ in.mk = "PAYLOAD",
       parse |-> [ok |-> in.mk = "PAYLOAD" /\ ParseOK(in) /\ PayloadValid(in), pure |-> TRUE, hist |-> TRUE],
       rt |-> [built |-> FALSE, parseOk |-> FALSE, equal |-> FALSE, remarshalEqual |-> FALSE, sameMemo |-> FALSE],
       hasCredit |-> isRecv /\ r.ok /\ ForOrbiter(in),
       credit |-> IF isRecv /\ r.ok /\ ForOrbiter(in) THEN <<[d |-> in.base, a |-> in.amt]>> ELSE <<>>,
       idres |-> IF in.t = "ident" THEN IdentModel(pre, in) ELSE <<>>,
       gen |-> [validateOk |-> in.t = "gendoc" /\ GenValid(in.g), initOk |-> in.t = "gendoc" /\ GenValid(in.g)] ]

-----------------------------------------------------------------------------
(* Behaviour specification                                                 *)

NullStep == [t |-> "init"]

Init == st = InitSt /\ last = NullStep
Next == \E in \in Alphabet : LET S == ModelStep(st, in) IN st' = S.post /\ last' = S
Spec == Init /\ [][Next]_vars

=============================================================================
