------------------------------ MODULE MC_Ident ------------------------------
(* Family IDENT (C20): counterparty strings as character sequences.  All strings   *)
(* of length <= 3 over {0,1,9,+,-,space,:} plus boundary spellings (2^32-1, 2^32,   *)
(* leading zeros, exponents, hex, 32/33 characters, channel-N forms, separators)   *)
(* are sent through every entry point that accepts an identifier (pause, unpause,  *)
(* pause queries, statistics queries, genesis validation, NewCrossChainID,         *)
(* ParseCrossChainID) for every protocol; an accepted pause is followed by a probe *)
(* transfer to the domain the string denotes.                                      *)
EXTENDS OrbiterProps, Inputs
CONSTANT MaxDepth, IdentSet

Chars7 == {"0", "1", "9", "+", "-", " ", ":"}
Str(cs) == FoldLeft(LAMBDA a, b : a \o b, "", cs)
DigitVal(c) == CHOOSE k \in 0..9 : ToString(k) = c
Denote(cs) ==
  IF cs = <<>> THEN -1 ELSE
  LET body == IF cs[1] \in {"+", "-"} THEN Tail(cs) ELSE cs
      neg  == cs[1] = "-"
  IN IF body = <<>> \/ Len(body) > 9 \/ \E i \in DOMAIN body : body[i] \notin Digits THEN -1
     ELSE LET v == FoldLeft(LAMBDA a, c : a * 10 + DigitVal(c), 0, body) IN IF neg /\ v # 0 THEN -1 ELSE v
Ent(cs) == [cp |-> Str(cs), chars |-> cs, dom |-> Denote(cs)]

Short == UNION { [1..n -> Chars7] : n \in 1..(IF IdentSet = "full" THEN 3 ELSE 2) }
Rep(c, n) == [i \in 1..n |-> c]
Specials == { <<"4","2","9","4","9","6","7","2","9","5">>, <<"4","2","9","4","9","6","7","2","9","6">>,
              <<"0","4">>, <<"0","0","1">>, <<"+","0","1">>, <<"1","e","3">>, <<"0","x","1">>, <<"1",".","0">>, <<"1","_","0">>,
              <<"2","1","4","7","4","8","3","6","4","7">>, <<"9","9","9","9","9","9","9","9","9","9","9">>,
              <<"1","8","4","4","6","7","4","4","0","7","3","7","0","9","5","5","1","6","1","7">>,
              Rep("1", 32), Rep("1", 33), Rep("a", 32), Rep("a", 33),
              <<"c","h","a","n","n","e","l","-","0">>, <<"c","h","a","n","n","e","l","-","0","0">>, <<"c","h","a","n","n","e","l","-","-","1">>,
              <<"c","h","a","n","n","e","l","-","7">>, <<"c","h","a","n","n","e","l","-">>, <<"C","H","A","N","N","E","L","-","0">>,
              <<"n","o","b","l","e">>, <<"a",":","b">>, <<"2",":","0">>, <<>> }
AllIds == SetToSeq({ Ent(cs) : cs \in Short \cup Specials })

Batches == { IdentIn(p, AllIds) : p \in {"IBC", "CCTP", "HYP", "INT", "UNSUPPORTED", "PUNKNOWN"} }
Prep == { PauseCC("AUTH", "CCTP", <<Cp1>>), PauseProtocol("AUTH", "HYP"), DepositIn("uusdc", 5) }
MCAlphabet == Batches \cup Prep
SmallAlphabet == MCAlphabet

StepProps == [][ Prop_C20(last') /\ Prop_C08(last') ]_vars
Depth == TLCGet("level") <= MaxDepth
View == st
=============================================================================
