SPECIFICATION GenSpec
CONSTANT Alphabet <- MCAlphabet
CONSTANT SwapRegistered = FALSE
CONSTANT MaxDepth = 2
CONSTANT StatSet = "small"
CONSTANT GenDepth = 1
CONSTANT GenSet = "mixed"
INVARIANT Emit
CHECK_DEADLOCK FALSE
