SPECIFICATION TraceSpec
CONSTANT Alphabet = {}
CONSTANT SwapRegistered = FALSE
INVARIANT Report
POSTCONDITION TraceAccepted
CHECK_DEADLOCK FALSE
