---------------------------- MODULE OrbiterProps ----------------------------
(***************************************************************************)
(* The listed properties C01..C20 as predicates over a step record S      *)
(* (see Orbiter.tla, "Step records").  They never call Apply and never     *)
(* use the environment model: they read the step (input, outcome, pre and  *)
(* post projection, control-run outcomes) and the operators that DEFINE    *)
(* the property (fees, identifiers, expected request, statistics fold).    *)
(* The same text judges model steps (Inv_Cxx in MC_*.tla) and observed     *)
(* steps of the real code (Obs_Cxx in OrbiterTrace.tla).                   *)
(***************************************************************************)
EXTENDS Orbiter

\* genesis (re)initialisation replaces the module's state wholesale
ReplacesState(S) == S.in.t \in {"reimport", "gendoc"}
IsRecv(S)  == S.in.t = "recv"
IsAdmin(S) == S.in.t = "admin"
IsOrbiterPacket(S) == IsRecv(S) /\ ForOrbiter(S.in)
\* an orbiter packet carrying a payload that parses and validates
HasPayload(S) == IsOrbiterPacket(S) /\ ParseOK(S.in) /\ PayloadValid(S.in) /\ AmtKind(S.in) \in {"num", "huge"}
\* (ledger predicates need the delivered denom to be one the projection tracks; packets in other
\* denominations are judged by C01's "no larger orbiter balance" and by C16)
\* They also need the payload and the amount to be the ones the input describes (not a mutated
\* memo, not an encoding whose value the abstraction does not know).
IsTransfer(S) == IsOrbiterPacket(S) /\ S.ok /\ ~S.panic /\ S.in.base \in Denom
                   /\ S.in.mk = "PAYLOAD" /\ AmtKind(S.in) = "num"

D(S)   == S.in.base
A(S)   == S.in.amt
Esc(S) == Escrow(S.in.chan)
Route(S) == PidOf(S.in.fw.pid)
Dst(S)   == <<PidOf(S.in.fw.pid), CpOf(S.in.fw)>>
\* (total: a recipient spelling the specification holds invalid - which the code should have refused -
\* names no tracked account; its delta counts as 0 and conservation then fails, as it should)
Delta(S, a, d) == IF a \in Acct /\ d \in Denom THEN S.post.bal[a][d] - S.pre.bal[a][d] ELSE 0
Burn(S, d) == S.pre.supply[d] - S.post.supply[d]

HasSwap(S) == \E i \in DOMAIN S.in.acts : ActOf(S.in.acts[i].id) = "SWAP"
OutDenom(S) == IF HasSwap(S) THEN "uswap" ELSE D(S)
FeeActs(S) == {i \in DOMAIN S.in.acts : ActOf(S.in.acts[i].id) = "FEE"}
FeeRcpts(S) == UNION {{RcptAcct(S.in.acts[i].fees[j].to) : j \in DOMAIN S.in.acts[i].fees} : i \in FeeActs(S)}
Sink(S) == CASE Route(S) = "HYP" -> {"warp"} [] Route(S) = "INT" -> {RcptAcct(S.in.fw.to)} [] OTHER -> {}
Touched(S) == {Esc(S), "orb", "dust"} \cup FeeRcpts(S) \cup Sink(S)
                 \cup (IF HasSwap(S) THEN {"pool"} ELSE {})

\* observed amount handed to the outgoing route, from the ledger alone
LedgerForwarded(S) == CASE Route(S) = "CCTP" -> Burn(S, OutDenom(S))
                        [] Route(S) = "HYP" -> Delta(S, "warp", OutDenom(S))
                        [] OTHER -> Delta(S, RcptAcct(S.in.fw.to), OutDenom(S))
\* when the destination account is also a fee recipient the ledger cannot separate the two
\* credits; the amount of the observed request is used instead
Forwarded(S) == IF Sink(S) \cap FeeRcpts(S) = {} \/ S.req = <<>> THEN LedgerForwarded(S) ELSE S.req[1].amt
\* every credit of denom d outside the orbiter account and the escrow, plus what was burned,
\* net of the pre-existing orbiter balance (which the transfer moves to the dust collector)
LeftOrbiter(S, d) == MapThenSumSet(LAMBDA a : Delta(S, a, d), Acct \ {"orb", Esc(S)}) + Burn(S, d)
                       - S.pre.bal["orb"][d]
SumOverAccts(S, d) == MapThenSumSet(LAMBDA a : Delta(S, a, d), Acct)

-----------------------------------------------------------------------------
(* A KNOWN, RECORDED deviation of the design from C11 / C02 (KNOWN_FINDINGS.json, DESIGN.md section 10):   *)
(* a Hyperlane forwarding whose custom hook is a paying interchain gas paymaster draws the hook fee from  *)
(* whatever the orbiter account holds in the paymaster's denom AFTER the collateral is locked - i.e. from   *)
(* coins that were already lying there in another denomination.  The specification models what the code  *)
(* does; the model-checking configs therefore assert C02 / C11 "except for this named deviation", while   *)
(* the predicates evaluated on observed steps stay strict (the check prints KNOWN-FINDING for them).      *)
KnownDeviationIGP(S) == IsRecv(S) /\ S.in.mk = "PAYLOAD" /\ S.in.fw.hook = "H_IGP"

(* C01 Received funds never stay on the orbiter account *)
Prop_C01(S) == IsRecv(S) =>
  /\ ~S.panic                                             \* an acknowledgement exists
  /\ (S.ok => ~S.orbUp)                                   \* any packet, any encoding
  /\ (IsTransfer(S) => S.post.bal["orb"][D(S)] <= S.pre.bal["orb"][D(S)])   \* the delivered coin went out

(* C02 Every successful transfer conserves value across the whole ledger *)
\* whatever the payload was (also a memo the abstraction cannot interpret): a success acknowledgement
\* with coins of the delivered denomination still lying on the orbiter account means value that was
\* neither handed to a route, nor paid as a fee, nor refunded
NothingStays(S) == IsOrbiterPacket(S) /\ S.ok /\ ~S.panic /\ S.in.base \in Denom => S.post.bal["orb"][S.in.base] = 0
Prop_C02(S) == NothingStays(S) /\ (IsTransfer(S) =>
  /\ -Delta(S, Esc(S), D(S)) = A(S)
  /\ Forwarded(S) > 0
  /\ (~HasSwap(S) => LeftOrbiter(S, D(S)) = A(S) /\ S.post.bal["orb"][D(S)] = 0)
  /\ Delta(S, "dust", D(S)) >= S.pre.bal["orb"][D(S)]
  /\ ("dust" \notin FeeRcpts(S) \cup Sink(S) => Delta(S, "dust", D(S)) = S.pre.bal["orb"][D(S)])
  /\ \A a \in Acct \ Touched(S), x \in Denom : S.post.bal[a][x] = S.pre.bal[a][x]
  /\ \A a \in Touched(S) \cap Acct, x \in Denom \ {D(S), OutDenom(S)} : S.post.bal[a][x] = S.pre.bal[a][x]
  /\ S.othersSame
  /\ \A x \in Denom : /\ SumOverAccts(S, x) = -Burn(S, x)           \* ledger consistent with supply
                      /\ (Route(S) # "CCTP" \/ x # OutDenom(S) => Burn(S, x) = 0)
                      /\ Burn(S, x) >= 0)

(* C03 A failure at any step yields an error acknowledgement, never partial success *)
Swallowed == {}
Prop_C03(S) == IsRecv(S) =>
  /\ ~S.panic
  /\ (S.fired \ Swallowed # {} => ~S.ok)
  /\ (~S.ok => S.post = S.pre)
  /\ NothingStays(S)       \* success only after EVERY fund movement of the transfer has completed

(* C06 Actions run in payload order on the running amount; the final coin is forwarded *)
HasActions(S) == HasPayload(S) /\ Len(S.in.acts) > 0
\* what each action does to the coin it sees
ActEffect(a, c) == IF ActOf(a.id) = "FEE" THEN [d |-> c.d, n |-> c.n - FeeTotal(c.n, a.fees)]
                   ELSE [d |-> "uswap", n |-> SwapOut(a, c.n)]
Prop_C06(S) ==
  /\ (IsOrbiterPacket(S) /\ S.in.mk = "PAYLOAD" /\ ParseOK(S.in) /\ RepeatsAction(S.in) => ~S.ok)
  \* whatever the final outcome: the actions that were entered are a prefix of the payload's list, in
  \* order, the first sees the delivered coin, each sees what its predecessor left, and every action
  \* that did not fail left exactly its effect on the coin it saw
  /\ (HasActions(S) /\ S.hasTrace /\ ~S.panic /\ AmtKind(S.in) = "num" =>
        LET t == S.perAction  n == Len(S.in.acts) IN
        /\ Len(t) <= n
        /\ \A i \in DOMAIN t : t[i].id = ActOf(S.in.acts[i].id)
        /\ (Len(t) >= 1 => t[1].cin = [d |-> D(S), n |-> A(S)])
        /\ \A i \in 1..(Len(t) - 1) : ~t[i].err /\ t[i + 1].cin = t[i].cout
        /\ \A i \in DOMAIN t : ~t[i].err => t[i].cout = ActEffect(S.in.acts[i], t[i].cin))
  /\ (HasActions(S) /\ S.ok /\ S.hasTrace =>
        LET t == S.perAction  n == Len(S.in.acts) IN
        /\ Len(t) = n
        /\ \A i \in 1..n : t[i].id = ActOf(S.in.acts[i].id) /\ ~t[i].err          \* payload order, each exactly once
        /\ t[1].cin = [d |-> D(S), n |-> A(S)]                                    \* the first sees the delivered coin
        /\ \A i \in 1..(n - 1) : t[i + 1].cin = t[i].cout                        \* each sees what its predecessor left
        /\ \A i \in 1..n : t[i].cout = ActEffect(S.in.acts[i], t[i].cin)
        /\ Len(S.req) = 1 /\ S.req[1].amt = t[n].cout.n                           \* the final coin is forwarded
        /\ (S.req[1].route # "HYP" => S.req[1].denom = t[n].cout.d))

(* C04 Fees are exact, computed on the incoming amount, and bounded *)
HasFee(S) == HasPayload(S) /\ FeeActs(S) # {} /\ ~HasSwap(S)
TheFee(S) == S.in.acts[CHOOSE i \in FeeActs(S) : TRUE]
CreditsOf(AA, fs) == [r \in Acct |-> SumSeq([j \in DOMAIN fs |->
                         IF RcptAcct(fs[j].to) = r /\ FeeOf(AA, fs[j]) > 0 THEN FeeOf(AA, fs[j]) ELSE 0])]
CleanEnv(s) == ~s.env.ftfPaused /\ s.env.blocked = {} /\ ~s.env.cctpPaused
Prop_C04(S) == HasFee(S) /\ AmtKind(S.in) = "num" /\ S.in.base \in Denom =>
  LET fs == TheFee(S).fees IN
  /\ ~S.panic                                   \* refused means an error acknowledgement, not an abort
  /\ (TheFee(S).at = "FEE" /\ FeeRefused(A(S), fs) => ~S.ok)
  /\ (S.ok =>
        /\ TheFee(S).at = "FEE" /\ ~FeeRefused(A(S), fs)
        /\ \A r \in Acct \ ({"orb", "dust", Esc(S)} \cup Sink(S)) : Delta(S, r, D(S)) = CreditsOf(A(S), fs)[r]
        /\ Delta(S, "dust", D(S)) = CreditsOf(A(S), fs)["dust"] + S.pre.bal["orb"][D(S)]
        /\ LedgerForwarded(S) = A(S) - FeeTotal(A(S), fs) + (IF Route(S) = "INT" /\ RcptAcct(S.in.fw.to) \in Acct THEN CreditsOf(A(S), fs)[RcptAcct(S.in.fw.to)] ELSE 0))
  /\ (TheFee(S).at = "FEE" /\ ~FeeRefused(A(S), fs) /\ S.ctl.noacts.run /\ S.ctl.noacts.ok
        /\ CleanEnv(S.pre) /\ S.pre.pAct = {} /\ "orb" \notin FeeRcpts(S) => S.ok)

(* C04 / C02 at full precision: amounts and fixed fees up to 2^256-1 as decimal digit sequences,  *)
(* with exact arithmetic (BigNat.tla).  The step is an internal transfer to U from a clean state.  *)
BigVal(f) == IF f.vc = "DIGITS" THEN f.vd ELSE BFromInt(f.v)
BigFeeOf(AA, f) == IF f.k = "bps" THEN BDivSmall(BMulSmall(AA, f.v), 10000) ELSE BigVal(f)
BigEntryValid(f) ==
  /\ f.k \in {"bps", "fix"}
  /\ (f.k = "bps" => f.vc = "OK" /\ f.v \in 1..10000)
  /\ (f.k = "fix" => \/ (f.vc = "DIGITS" /\ BIsNat(f.vd) /\ ~BIsZero(f.vd) /\ BLeq(f.vd, BMax256))
                     \/ (f.vc \in {"OK", "PLUS"} /\ f.v >= 1))
  /\ ValidRcpt(f.to)
BigTotal(AA, fs) == BSumSeq([i \in DOMAIN fs |-> BigFeeOf(AA, fs[i])], 1)
BigRefused(AA, fs) ==
  \/ Len(fs) > MaxFeeRecipients \/ \E i \in DOMAIN fs : ~BigEntryValid(fs[i])
  \/ \E i \in DOMAIN fs : fs[i].k = "bps" /\ BLt(BMax256, BMulSmall(AA, fs[i].v))        \* A * bps overflows
  \/ BLt(BMax256, BigTotal(AA, fs))                                                     \* the sum overflows
  \/ BLeq(AA, BigTotal(AA, fs))                                                         \* total >= A
BigCredit(AA, fs, r) == BSumSeq([i \in DOMAIN fs |-> IF RcptAcct(fs[i].to) = r THEN BigFeeOf(AA, fs[i]) ELSE BZero], 1)
IsBig(S) == IsOrbiterPacket(S) /\ S.in.amtc = "DIGITS" /\ S.in.mk = "PAYLOAD" /\ S.hasBig /\ PidOf(S.in.fw.pid) = "INT"
              /\ RcptAcct(S.in.fw.to) = "U" /\ ParseOK(S.in) /\ PayloadValid(S.in)
Prop_C04big(S) == IsBig(S) /\ FeeActs(S) # {} =>
  LET AA == S.in.amtd  fs == TheFee(S).fees IN
  /\ ~S.panic
  /\ (BigRefused(AA, fs) => ~S.ok)
  /\ (~BigRefused(AA, fs) /\ BLeq(AA, BMax256) /\ ~BIsZero(AA) => S.ok)
  /\ (S.ok => /\ BEq(S.big.F1, BigCredit(AA, fs, "F1")) /\ BEq(S.big.F2, BigCredit(AA, fs, "F2"))
              /\ BEq(S.big.U, BSub(AA, BigTotal(AA, fs))))
\* conservation at full precision: escrow releases A = credits + forwarded, nothing stays
Prop_C02big(S) == IsBig(S) /\ S.ok =>
  /\ BEq(S.big.esc, S.in.amtd)
  /\ BEq(BAdd(BAdd(S.big.F1, S.big.F2), BAdd(S.big.U, S.big.dust)), BAdd(S.in.amtd, S.big.orbPre))
  /\ BIsZero(S.big.orb) /\ ~BIsZero(S.big.U)

\* full-precision amounts (outside Apply's integers): a success acknowledgement only after every fund
\* movement of the transfer has completed - nothing of it is left on the orbiter account and the
\* destination was credited (e.g. when a statistics update fails on a saturated route)
Prop_C03big(S) == IsBig(S) /\ S.ok => BIsZero(S.big.orb) /\ ~BIsZero(S.big.U)

\* a pre-existing balance beyond 64 bits in the transferred denom: swept to the dust collector, exactly,
\* never blocking the transfer (the comparison with the emptied account is Prop_C11's first conjunct)
Prop_C11big(S) == IsBig(S) /\ ~BIsZero(S.big.orbPre) =>
  /\ ~S.panic
  /\ (S.ok => /\ BIsZero(S.big.orb)
              /\ BEq(S.big.dust, BAdd(S.big.orbPre, IF FeeActs(S) = {} THEN BZero ELSE BigCredit(S.in.amtd, TheFee(S).fees, "dust"))))

(* C05 The outgoing bridge request carries exactly the user's route and parameters *)
PostActionCoin(S) == IF FeeActs(S) # {} /\ ~HasSwap(S)
                     THEN [d |-> D(S), n |-> A(S) - FeeTotal(A(S), TheFee(S).fees)]
                     ELSE [d |-> D(S), n |-> A(S)]
\* fields that typed events cannot show are masked when the request was reconstructed from events
Mask(r, full) == IF r.route # "HYP" THEN r
                 ELSE IF full THEN [r EXCEPT !.denom = "?"]      \* the warp message names a token, not a denom
                 ELSE [r EXCEPT !.hook = "?", !.gas = -1, !.maxfee = -1, !.mfd = "?", !.meta = "?"]
Unrouted(in) == PidOf(in.fw.pid) \in {"IBC", "BAD"}
                  \/ (\E i \in DOMAIN in.acts : ActOf(in.acts[i].id) = "BAD")
                  \/ (~SwapRegistered /\ \E j \in DOMAIN in.acts : ActOf(in.acts[j].id) = "SWAP")
Mismatch(in) == PidOf(in.fw.pid) \in FwTypes /\ in.fw.at # PidOf(in.fw.pid)
Prop_C05(S) ==
  /\ (IsTransfer(S) /\ ~HasSwap(S) =>
        /\ ~Unrouted(S.in) /\ ~Mismatch(S.in)
        /\ Len(S.req) = 1
        /\ Mask(S.req[1], S.fullReq) = Mask(ExpectedReq(S.in.fw, PostActionCoin(S)), S.fullReq))
  /\ (IsOrbiterPacket(S) /\ S.in.mk = "PAYLOAD" /\ (Unrouted(S.in) \/ Mismatch(S.in)) => ~S.ok)
  \* a request that REACHED a bridge (recorded by the wrapper around the real message server) is exactly
  \* the expected one also when the bridge then refuses it and the transfer fails
  /\ (IsOrbiterPacket(S) /\ ~S.ok /\ ~S.panic /\ S.in.mk = "PAYLOAD" /\ AmtKind(S.in) = "num" /\ ~HasSwap(S)
        /\ S.reached # <<>> /\ S.fired = {} /\ ParseOK(S.in) /\ PayloadValid(S.in) =>
        /\ Len(S.reached) = 1 /\ ~Unrouted(S.in) /\ ~Mismatch(S.in)
        /\ Mask(S.reached[1], TRUE) = Mask(ExpectedReq(S.in.fw, PostActionCoin(S)), TRUE))
  /\ (IsAdmin(S) /\ S.in.rpc = "ReplaceDepositForBurn" /\ S.in.signer = "AUTH" /\ S.fullReq =>
        S.req = <<ReplaceReq(S.in)>>)

(* C07 Traffic not addressed to the orbiter is handled as if the middleware were absent *)
Untouched(S, who) ==
  /\ OrbGroups(S.post) = OrbGroups(S.pre)
  /\ (who \notin {"orb", "dust"} => S.post.bal["orb"] = S.pre.bal["orb"] /\ S.post.bal["dust"] = S.pre.bal["dust"])
Prop_C07(S) ==
  /\ (IsRecv(S) /\ ~ForOrbiter(S.in) =>
        /\ (S.hasDiff => S.diff.ackEq /\ S.diff.eventsEq /\ S.diff.stateEq)
        /\ Untouched(S, IF RcvDecodes(S.in.rcv) THEN RcvAcct(S.in.rcv) ELSE "none"))
  /\ (S.in.t \in {"ackpkt", "timeout"} =>
        /\ (S.hasDiff => S.diff.ackEq /\ S.diff.eventsEq /\ S.diff.stateEq /\ S.diff.appVersionEq)
        /\ Untouched(S, IF RcvDecodes(S.in.who) THEN RcvAcct(S.in.who) ELSE "none"))

(* C13 Statistics queries and pagination are faithful views of the ledger *)
Flatten(pages) == FoldLeft(LAMBDA acc, p : acc \o p.items, <<>>, pages)
Prop_C13(S) == S.in.t = "query" =>
  LET q == S.in.q  P == S.pages  items == Flatten(P) IN
  IF q.by = "direct" THEN
     /\ Len(P) = 1
     /\ (DirectHit(S.post, q) = {} => P[1].err /\ P[1].items = <<>>)               \* returned exactly when non-zero
     /\ (DirectHit(S.post, q) # {} => ~P[1].err /\ ToSet(P[1].items) = DirectHit(S.post, q) /\ Len(P[1].items) = 1)
  ELSE IF q.pid \notin ProtoNames THEN Len(P) = 1 /\ P[1].err
  ELSE LET M == Matching(S.post, q) IN
     /\ \A i \in DOMAIN P : ~P[i].err
     /\ ToSet(items) = M                                                           \* no omission, no foreign entry
     /\ Len(items) = Cardinality(M)                                                \* no duplicate
     /\ \A i \in DOMAIN P : Len(P[i].items) <= EffLimit(q)
     /\ \A i \in 1..(Len(P) - 1) : Len(P[i].items) = EffLimit(q) /\ P[i].hasNext     \* full pages until the last
     /\ ~P[Len(P)].hasNext
     /\ (q.countTotal => P[1].total = Cardinality(M))                               \* correct total

(* C19 Processing is deterministic, including committed error text *)
Prop_C19(S) == S.hasDig => \A i \in DOMAIN S.peers : S.peers[i] = S.dig

(* C08 A paused protocol or destination is never forwarded to; others are unaffected *)
Blocked(s, dst) == dst[1] \in s.pProto \/ dst \in s.pCC
ActionPaused(s, in) == \E i \in DOMAIN in.acts : ActOf(in.acts[i].id) \in s.pAct
PauseSets(s) == [pProto |-> s.pProto, pCC |-> s.pCC]
IsPauseMsg(S) == IsAdmin(S) /\ S.in.rpc \in PauseRpcs
Prop_C08(S) ==
  /\ (HasPayload(S) /\ Blocked(S.pre, Dst(S)) => ~S.ok)
  /\ (HasPayload(S) /\ S.ctl.nopause.run /\ S.ctl.nopause.ok
        /\ ~Blocked(S.pre, Dst(S)) /\ ~ActionPaused(S.pre, S.in) => S.ok)
  /\ (~(IsPauseMsg(S) /\ S.ok) /\ ~ReplacesState(S) => PauseSets(S.post) = PauseSets(S.pre))
  \* a chain started from a valid genesis document has exactly the document's destinations paused
  /\ (S.in.t = "gendoc" /\ S.gen.initOk /\ GenValid(S.in.g) =>
        S.post.pProto = ToSet(S.in.g.pp) /\ S.post.pCC = {<<S.in.g.pcc[i].p, S.in.g.pcc[i].cp>> : i \in DOMAIN S.in.g.pcc})
  /\ (IsPauseMsg(S) /\ S.ok =>
        CASE S.in.rpc = "PauseProtocol" ->
               S.post.pProto = S.pre.pProto \cup {S.in.pid} /\ S.post.pCC = S.pre.pCC
          [] S.in.rpc = "UnpauseProtocol" ->
               S.post.pProto = S.pre.pProto \ {S.in.pid} /\ S.post.pCC = S.pre.pCC
          [] S.in.rpc = "PauseCrossChains" /\ Len(S.in.cps) > 0 ->
               S.post.pCC = S.pre.pCC \cup {<<S.in.pid, c>> : c \in ToSet(S.in.cps)} /\ S.post.pProto = S.pre.pProto
          [] S.in.rpc = "UnpauseCrossChains" /\ Len(S.in.cps) > 0 ->
               S.post.pCC = S.pre.pCC \ {<<S.in.pid, c>> : c \in ToSet(S.in.cps)} /\ S.post.pProto = S.pre.pProto
          [] OTHER -> S.post.pCC = S.pre.pCC)
  /\ (S.hasQ =>
        /\ S.q.qProto = S.post.pProto
        /\ \A r \in S.q.isProto : r.ok /\ (r.v <=> r.p \in S.post.pProto)
        /\ \A r \in S.q.isCC : r.ok => (r.v <=> <<r.p, r.c>> \in S.post.pCC)
        /\ \A r \in S.q.qCC : r.ok /\ ~r.dup /\ r.cps = {pc[2] : pc \in {x \in S.post.pCC : x[1] = r.p}})

(* C09 A paused action is never executed; payloads without it are unaffected *)
Prop_C09(S) ==
  /\ (HasPayload(S) /\ ActionPaused(S.pre, S.in) =>
        ~S.ok /\ \A a \in {"F1", "F2", "U"}, d \in Denom : S.post.bal[a][d] = S.pre.bal[a][d])
  /\ (HasPayload(S) /\ S.ctl.nopause.run /\ S.ctl.nopause.ok
        /\ ~Blocked(S.pre, Dst(S)) /\ ~ActionPaused(S.pre, S.in) => S.ok)
  /\ (~(IsAdmin(S) /\ S.in.rpc \in ActionRpcs /\ S.ok) /\ ~ReplacesState(S) => S.post.pAct = S.pre.pAct)
  /\ (IsAdmin(S) /\ S.in.rpc = "PauseAction" /\ S.ok => S.post.pAct = S.pre.pAct \cup {S.in.aid})
  /\ (IsAdmin(S) /\ S.in.rpc = "UnpauseAction" /\ S.ok => S.post.pAct = S.pre.pAct \ {S.in.aid})
  \* a chain started from a valid genesis document has exactly the document's actions paused
  /\ (S.in.t = "gendoc" /\ S.gen.initOk /\ GenValid(S.in.g) => S.post.pAct = ToSet(S.in.g.pa))
  /\ (S.hasQ =>
        /\ S.q.qAct = S.post.pAct
        /\ \A r \in S.q.isAct : r.ok /\ (r.v <=> r.p \in S.post.pAct))

(* C10 Only the authority can change module state through messages *)
DenotesAuthority(signer) == signer \in {"AUTH", "AUTH_UPPER"}
ValidContent(s, in) ==
  CASE in.rpc = "PauseProtocol"   -> in.pid \in ProtoNames \ s.pProto
    [] in.rpc = "UnpauseProtocol" -> in.pid \in s.pProto
    [] in.rpc = "PauseCrossChains" ->
         /\ in.pid \in ProtoNames /\ Len(in.cps) \in 1..MaxBatch
         /\ \A i \in DOMAIN in.cps : ValidCp(in.pid, in.cpc[i]) /\ <<in.pid, in.cps[i]>> \notin s.pCC
         /\ \A i, j \in DOMAIN in.cps : i # j => in.cps[i] # in.cps[j]
    [] in.rpc = "UnpauseCrossChains" ->
         /\ in.pid \in ProtoNames /\ Len(in.cps) \in 1..MaxBatch
         /\ \A i \in DOMAIN in.cps : ValidCp(in.pid, in.cpc[i]) /\ <<in.pid, in.cps[i]>> \in s.pCC
         /\ \A i, j \in DOMAIN in.cps : i # j => in.cps[i] # in.cps[j]
    [] in.rpc = "PauseAction"   -> in.aid \in ActionNames \ s.pAct
    [] in.rpc = "UnpauseAction" -> in.aid \in s.pAct
    [] in.rpc = "UpdateParams"  -> TRUE
    [] OTHER -> FALSE
Prop_C10(S) == IsAdmin(S) =>
  /\ ~S.panic
  /\ (~DenotesAuthority(S.in.signer) => ~S.ok /\ S.post = S.pre /\ S.req = <<>>)
  /\ (~S.ok => S.post = S.pre)
  /\ (S.in.signer = "AUTH" /\ ValidContent(S.pre, S.in) /\ S.fired = {} => S.ok)     \* (no injected failure)

(* C11 Coins already on the orbiter account never alter, fund or block a transfer *)
Prop_C11(S) == IsOrbiterPacket(S) /\ ~S.panic =>
  /\ (S.ctl.clean.run => S.ctl.clean.out = S.out)
  /\ (IsTransfer(S) /\ "dust" \notin FeeRcpts(S) \cup Sink(S) =>
        S.post.bal["dust"][D(S)] = S.pre.bal["dust"][D(S)] + S.pre.bal["orb"][D(S)])
  /\ (IsTransfer(S) => \A x \in Denom \ {D(S), OutDenom(S)} : S.post.bal["orb"][x] = S.pre.bal["orb"][x])

(* C12 Dispatch statistics equal the fold of the successful transfers *)
Stats(s) == [amt |-> s.amt, cnt |-> s.cnt]
Prop_C12(S) ==
  IF IsTransfer(S)
  THEN LET cin  == [d |-> D(S), n |-> -Delta(S, Esc(S), D(S))]
           cout == [d |-> OutDenom(S), n |-> Forwarded(S)]
       IN Stats(S.post) = Stats(AddTransfer(S.pre, "IBC", SrcCp(S.in.chan), Dst(S)[1], Dst(S)[2], cin, cout))
  \* refused transfers, non-orbiter traffic, admin messages, deposits: unchanged (successful orbiter
  \* packets outside the abstraction - mutated memos, odd amount spellings - are not judged here)
  ELSE ~ReplacesState(S) /\ ~(IsOrbiterPacket(S) /\ S.ok) => Stats(S.post) = Stats(S.pre)

(* C18 The passthrough payload size limit in force is enforced *)
Limit(s) == IF s.hasParams THEN s.maxPT ELSE 0
Prop_C18(S) ==
  /\ (HasPayload(S) /\ S.in.fw.pt > Limit(S.pre) => ~S.ok)
  /\ (HasPayload(S) /\ S.in.fw.pt > 0 /\ S.in.fw.pt <= Limit(S.pre) /\ S.ctl.nopt.run => S.ok = S.ctl.nopt.ok)
  /\ (IsAdmin(S) /\ S.in.rpc = "UpdateParams" /\ S.ok =>
        S.post.hasParams /\ S.post.maxPT = (IF S.in.v < 0 THEN BIG ELSE S.in.v))
  /\ (~(IsAdmin(S) /\ S.in.rpc = "UpdateParams" /\ S.ok) /\ ~ReplacesState(S) =>
        Limit(S.post) = Limit(S.pre))
  /\ (S.in.t = "gendoc" /\ S.gen.initOk /\ GenValid(S.in.g) =>      \* "... most recently set by genesis"
        S.post.hasParams /\ S.post.maxPT = (IF S.in.g.params < 0 THEN BIG ELSE S.in.g.params))
  /\ (S.hasQ => S.q.qParamsOk /\ S.q.qParams = Limit(S.post))

(* C15 Only well-formed payloads are accepted, and encoding round-trips *)
\* the parser decides the STRUCTURE (root key, one forwarding, ids, registered attribute types, no
\* unknown fields); attribute VALUES (recipients, fee entries) are validated later by controllers
StructuralPaths == {"root", "orbiter", FW, FW \o ".protocol_id", FW \o ".attributes", FW \o ".attributes.@type",
                    PA, A0, A0 \o ".id", A0 \o ".attributes", A0 \o ".attributes.@type"} \cup UnknownPaths
Prop_C15(S) == IsRecv(S) /\ S.hasParse =>
  /\ (S.in.mk = "PAYLOAD" /\ S.parse.ok => ParseOK(S.in) /\ PayloadValid(S.in))     \* accepted only if well-formed
  /\ (S.in.mk = "MUT" /\ S.in.aid \in StructuralPaths /\ S.parse.ok => ~MustRefuse(S.in))
  /\ S.parse.pure /\ S.parse.hist                                                   \* parsing is a function of the memo alone
  /\ (S.rt.built => S.rt.parseOk /\ S.rt.equal /\ S.rt.remarshalEqual)              \* constructors round-trip

(* C16 Only returning Noble-native tokens are processed, under the coin ICS-20 credits *)
\* a one-hop voucher whose prefix is the packet's source port and channel, over a native base
ReturningNative(in) == in.dn \in RetClasses
Prop_C16(S) == IsOrbiterPacket(S) /\ S.in.dn # "L" =>
  /\ (~ReturningNative(S.in) => ~S.ok)
  \* "processed only when": for any other token no action controller is entered and no request reaches
  \* a bridge, whatever happens to the packet afterwards (instrumented wiring: controllers are wrapped)
  /\ (~ReturningNative(S.in) /\ S.hasTrace => S.perAction = <<>> /\ S.req = <<>>)
  /\ (S.ok /\ S.hasCredit =>
        /\ Len(S.credit) = 1
        /\ LET c == S.credit[1]  src == <<"IBC", SrcCp(S.in.chan)>> IN
           /\ (S.hasTrace /\ Len(S.perAction) > 0 => S.perAction[1].cin = [d |-> c.d, n |-> c.a])     \* acted on
           /\ (S.hasTrace /\ Len(S.perAction) = 0 /\ Len(S.req) = 1 =>
                 S.req[1].amt = c.a /\ (S.req[1].route # "HYP" => S.req[1].denom = c.d)               \* forwarded
                                    /\ (S.req[1].route = "HYP" => S.req[1].tok \in {"T1", "T2"} /\ OriginDenom(S.req[1].tok) = c.d))
           /\ \E e \in S.post.amt :                                                                 \* recorded
                 /\ <<e.sp, e.sc>> = src /\ e.denom = c.d
                 /\ LET old == {f \in S.pre.amt : AmtKeyOf(f) = AmtKeyOf(e)} IN
                      e.in - (IF old = {} THEN 0 ELSE (CHOOSE f \in old : TRUE).in) = c.a)

(* C20 Cross-chain identifiers are canonical and mean what transfers record *)
Prop_C20(S) == S.in.t = "ident" =>
  LET R == S.idres  pid == S.in.pid IN
  /\ \A i \in DOMAIN R : LET e == R[i] IN
        /\ (pid \in {"CCTP", "HYP"} /\ (e.pauseOk \/ e.queryOk \/ e.genesisOk \/ e.statsOk \/ e.newOk
                                           \/ e.batchFirstOk \/ e.batchMidOk) => CanonU32(e.chars))   \* in any batch position
        /\ (e.newOk => e.parseOk /\ e.parsePid = pid /\ e.parseCp = e.cp)       \* Parse(ID(pair)) = pair
        /\ (e.pauseOk /\ e.probeRun /\ e.ctlOk => ~e.probeOk)                  \* a successful pause covers what it names
        /\ (e.pauseOk => e.unpauseOk)
  /\ \A i, j \in DOMAIN R : R[i].cp # R[j].cp => R[i].id # R[j].id              \* distinct pairs, distinct forms
  /\ \A i, j \in DOMAIN R : (pid \in {"CCTP", "HYP"} /\ R[i].pauseOk /\ R[j].pauseOk /\ R[i].dom >= 0 /\ R[i].dom = R[j].dom)
                              => R[i].cp = R[j].cp                              \* no two spellings of one destination

(* C17b Any genesis accepted by validation can be initialised *)
Prop_C17b(S) == S.in.t = "gendoc" => (S.gen.validateOk => S.gen.initOk)

\* ... and initialises the module to exactly the state the document describes
Prop_C17c(S) == S.in.t = "gendoc" /\ S.gen.initOk /\ GenValid(S.in.g) => OrbGroups(S.post) = OrbGroups(GenDoc(S.pre, S.in).st)

(* C14 No input makes the receive path panic; malformed payloads are refused *)
Prop_C14(S) == IsRecv(S) =>
  /\ ~S.panic
  /\ (IsOrbiterPacket(S) /\ MustRefuse(S.in) => ~S.ok)
  /\ (IsOrbiterPacket(S) /\ S.in.mk = "PAYLOAD" /\ (~ParseOK(S.in) \/ ~PayloadValid(S.in)) => ~S.ok)

(* C17 (history part) export / import is the identity on the module's state *)
Prop_C17(S) == S.in.t = "reimport" =>
  /\ S.x.exportOk /\ S.x.validateOk /\ S.x.initOk /\ S.x.sameExport /\ S.x.fullOk
  /\ OrbGroups(S.post) = OrbGroups(S.pre)
  \* probe transfers run on discarded branches before and after the re-initialisation end alike
  \* (in the specification Reimport is the identity on the state, so Apply cannot tell them apart)
  /\ S.x.sameBeh

\* the forms asserted by the model-checking configs (see KnownDeviationIGP)
MC_C02(S) == KnownDeviationIGP(S) \/ Prop_C02(S)
MC_C11(S) == KnownDeviationIGP(S) \/ Prop_C11(S)
=============================================================================
