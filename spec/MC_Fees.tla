------------------------------ MODULE MC_Fees ------------------------------
(* Family FEES (C04): the fee action as a pure decision.  The grid               *)
(*   amounts x fee-entry lists (valid, boundary and invalid entries, repeated     *)
(*   recipients, mixtures of both fee types)                                      *)
(* is TLC's one-step state space from the initial state; every grid point becomes *)
(* one packet through the real application (MongoDB-style "one implementation     *)
(* test per transition").  Lemmas about the fee arithmetic are checked as ASSUMEs. *)
EXTENDS OrbiterProps, Inputs
CONSTANT MaxDepth, FeeSet, Amounts

E(k, v, vc, to) == [k |-> k, v |-> v, vc |-> vc, to |-> to]
BpsVals == {1, 3333, 5000, 9999, 10000, 0, 10001}
Rcpts == {"F1", "F2"}
EntriesFor(AA) ==
  { E("bps", v, "OK", r) : v \in BpsVals, r \in Rcpts } \cup { E("bps", 0, "U32MAX", "F1") }
  \cup { E("fix", v, "OK", r) : v \in {1, AA - 1, AA, AA + 1, 0}, r \in Rcpts }
  \cup { E("fix", 5, vc, "F1") : vc \in {"NEG", "FRAC", "ALPHA", "EMPTY", "PLUS", "LEADZERO", "BIG256", "SPACE", "TRAILSP", "NEWLINE", "TAB"} }
  \cup { E("bps", 100, "OK", to) : to \in {"INVALID", "EMPTY", "U", "DUST", "ORB"} }
  \cup { E("fix", 1, "OK", "INVALID"), E("fix", 2, "OK", "EMPTY"), E("fix", 2, "OK", "OTHER_HRP"), E("bps", 100, "OK", "OTHER_HRP"),
         E("notype", 0, "OK", "F1") }
SmallEntriesFor(AA) ==
  { E("bps", v, "OK", "F1") : v \in {1, 5000, 10000, 0, 10001} } \cup { E("bps", 3333, "OK", "F2") }
  \cup { E("fix", v, "OK", "F2") : v \in {1, AA - 1, AA, 0} } \cup { E("fix", 5, "NEG", "F1"), E("fix", 5, "SPACE", "F1"), E("fix", 5, "NEWLINE", "F2"), E("bps", 100, "OK", "INVALID"),
                                                                     E("fix", 5, "BIG256", "F1"), E("fix", 1, "OK", "INVALID"),
                                                                     E("bps", 100, "OK", "F1_MIXED"), E("fix", 1, "OK", "F1_UPPER"), E("bps", 100, "OK", "F1_SPACE"),
                                                                     E("bps", 100, "OK", "ORB_MIXED"), E("fix", 1, "OK", "OTHER_HRP"),
                                                                     E("fix", 2, "OK", "EMPTY"), E("fix", 2, "OK", "OTHER_HRP") }

\* Amounts is sharded by the driver (one TLC process per amount): full = {1, 2, 3, 9999, 10000,
\* 10001, 19999, 20000, 199999}
Lists(AA) == LET Es == IF FeeSet = "full" THEN EntriesFor(AA) ELSE SmallEntriesFor(AA) IN
             {<<>>} \cup { <<e>> : e \in Es } \cup { <<e, f>> : e \in Es, f \in Es }
\* longer lists: every length 3..6 is represented, with repeated recipients and both fee types
LongLists(AA) == { <<E("bps", 100, "OK", "F1"), E("fix", 1, "OK", "F1"), E("bps", 3333, "OK", "F2")>>,
                   <<E("bps", 2500, "OK", "F1"), E("bps", 2500, "OK", "F2"), E("bps", 2500, "OK", "F1"), E("bps", 2500, "OK", "F2")>>,
                   <<E("bps", 2500, "OK", "F1"), E("bps", 2500, "OK", "F2"), E("bps", 2500, "OK", "F1"), E("bps", 2499, "OK", "F2")>>,
                   <<E("bps", 1, "OK", "F1"), E("bps", 1, "OK", "F1"), E("bps", 1, "OK", "F1"), E("bps", 1, "OK", "F1"), E("bps", 1, "OK", "F1")>>,
                   <<E("fix", 1, "OK", "F1"), E("fix", 1, "OK", "F2"), E("fix", 1, "OK", "U"), E("fix", 1, "OK", "F1"), E("fix", 1, "OK", "F2")>>,
                   <<E("bps", 1, "OK", "F1"), E("bps", 1, "OK", "F1"), E("bps", 1, "OK", "F1"), E("bps", 1, "OK", "F1"), E("bps", 1, "OK", "F1"), E("bps", 1, "OK", "F1")>>,
                   <<E("fix", 1, "OK", "F1"), E("fix", 1, "OK", "F2"), E("fix", 1, "OK", "F1"), E("fix", 1, "OK", "F2"), E("fix", 1, "OK", "F1"), E("fix", 1, "OK", "F2")>>,
                   <<E("bps", 5000, "OK", "F1"), E("fix", AA, "OK", "F2"), E("bps", 1, "OK", "F1")>>,
                   <<E("bps", 100, "OK", "F1"), E("null", 0, "OK", "F1")>>,
                   \* basis points that ADD UP to more than 100 %: every entry is floored on its own, so on a small
                   \* amount the fees still sum to less than the amount and the transfer must go through
                   <<E("bps", 5000, "OK", "F1"), E("bps", 5001, "OK", "F2")>>,
                   <<E("bps", 6000, "OK", "F1"), E("bps", 6000, "OK", "F2"), E("bps", 6000, "OK", "F1")>>,
                   <<E("bps", 2500, "OK", "F1"), E("bps", 2500, "OK", "F2"), E("bps", 2500, "OK", "F1"), E("bps", 2501, "OK", "F2")>>,
                   <<E("bps", 9999, "OK", "F1"), E("bps", 9999, "OK", "F2")>> }

\* the transfer carrying the fee action: internal route to U so that credits and forwarded amount are bank-visible
FeeXfer(AA, fs, fw) == Xfer(0, "uusdc", AA, fw, <<FeeAct(fs)>>)
Grid == UNION { { FeeXfer(AA, fs, FwINT("U")) : fs \in Lists(AA) } : AA \in Amounts }
        \cup UNION { { FeeXfer(AA, fs, FwINT("U")) : fs \in LongLists(AA) } : AA \in Amounts }
        \cup (IF 10000 \notin Amounts THEN {} ELSE
              { FeeXfer(10000, <<e>>, fw) : e \in EntriesFor(10000),
                                           fw \in { FwCCTP(0, "MINT_A", "NONE"), FwHYP("T1", 1, "R_A"), FwINT("F1") } })
        \cup { Xfer(0, "ustake", 10000, FwINT("U"), <<FeeAct(<<E("bps", 100, "OK", "F1"), E("fix", 7, "OK", "F2")>>)>>),
               Xfer(0, "uusdc", 10000, FwINT("U"), <<[id |-> "FEE", at |-> "TEST", fees |-> <<>>]>>),
               Xfer(0, "uusdc", 10000, FwINT("U"), <<[id |-> "FEE", at |-> "CCTP", fees |-> <<>>]>>),
               Xfer(0, "uusdc", 10000, FwINT("U"), <<[id |-> "N1", at |-> "FEE", fees |-> <<E("bps", 100, "OK", "F1")>>]>>) }

MCAlphabet == Grid
SmallAlphabet == Grid

StepProps == [][ Prop_C04(last') /\ Prop_C01(last') /\ MC_C02(last') /\ Prop_C05(last') /\ Prop_C12(last') ]_vars

P01 == [][Prop_C01(last')]_vars
P02 == [][MC_C02(last')]_vars
P04 == [][Prop_C04(last')]_vars
P05 == [][Prop_C05(last')]_vars
P12 == [][Prop_C12(last')]_vars

(* Lemmas of the fee arithmetic, over all amounts 0..300 and all lists of <= 2 valid entries *)
LemmaEntries == { E("bps", v, "OK", r) : v \in {1, 3333, 5000, 9999, 10000}, r \in {"F1", "F2"} }
                  \cup { E("fix", v, "OK", "F1") : v \in {1, 2, 150, 299} }
LemmaLists == {<<>>} \cup { <<e>> : e \in LemmaEntries } \cup { <<e, f>> : e \in LemmaEntries, f \in LemmaEntries }
ASSUME FeeLemmas ==
  \A AA \in 0..300 : \A fs \in LemmaLists :
     /\ FeesValid(fs)
     /\ (~FeeRefused(AA, fs) => /\ AA - FeeTotal(AA, fs) > 0
                                /\ MapThenSumSet(LAMBDA r : CreditsOf(AA, fs)[r], Acct) = FeeTotal(AA, fs))
     /\ \A i \in DOMAIN fs : FeeOf(AA, fs[i]) >= 0 /\ (fs[i].k = "bps" => FeeOf(AA, fs[i]) <= AA)
     /\ (AA > 0 => FeeTotal(AA - 1, fs) <= FeeTotal(AA, fs))            \* monotone in the amount

Depth == TLCGet("level") <= MaxDepth
View == st
=============================================================================
