---------------------------- MODULE Gen_SwapStat ----------------------------
(* Generation (DESIGN.md section 5.1): TLC enumerates input histories of the       *)
(* specification and prints them as JSON; harness/orbsim replays them in the real  *)
(* code.  Exhaustive: breadth-first with the history in the state (all histories   *)
(* of length GenDepth over GenAlphabet).  Random: tlc -simulate.                   *)
EXTENDS MC_SwapStat, Json
CONSTANT GenDepth, GenSet
VARIABLES hist, done

GenAlphabet == IF GenSet = "small" THEN SmallAlphabet ELSE MCAlphabet

GenInit == st = InitSt /\ last = NullStep /\ hist = <<>> /\ done = FALSE
GenNext == \/ /\ Len(hist) < GenDepth
              /\ \E in \in GenAlphabet : st' = Apply(st, in).st /\ hist' = Append(hist, in)
              /\ UNCHANGED <<last, done>>
           \* a single closing step, so that every complete history is emitted exactly once
           \* (in simulation mode TLC evaluates invariants on every candidate successor)
           \/ /\ Len(hist) = GenDepth /\ ~done /\ done' = TRUE /\ UNCHANGED <<st, last, hist>>
GenSpec == GenInit /\ [][GenNext]_<<st, last, hist, done>>

\* simulation: one random input per step instead of all |Alphabet| candidate successors
SimNext == \/ /\ Len(hist) < GenDepth
              /\ LET in == RandomElement(GenAlphabet) IN st' = Apply(st, in).st /\ hist' = Append(hist, in)
              /\ UNCHANGED <<last, done>>
           \/ /\ Len(hist) = GenDepth /\ ~done /\ done' = TRUE /\ UNCHANGED <<st, last, hist>>
SimSpec == GenInit /\ [][SimNext]_<<st, last, hist, done>>

Emit == done => PrintT(<<"BEHAVIOUR", ToJson(hist)>>)
=============================================================================

