------------------------------ MODULE MC_Stats ------------------------------
(* Family STATS (C12, C13): ledgers built by transfers over every source channel,  *)
(* destination, denomination and fee setting (and ledgers seeded through a           *)
(* validated genesis, so that non-IBC sources occur), then the query battery:        *)
(* {amounts, counts} x {by source, by destination} x every protocol filter (and an   *)
(* invalid one) x page limits x {key walk, offset walk} x {forward, reverse} x       *)
(* count-total, and direct lookups for every key of the key universe (present and    *)
(* absent).  Each walk follows next-keys / offsets to the end.                       *)
EXTENDS OrbiterProps, Inputs
CONSTANT MaxDepth, StatSet

Dests == { FwCCTP(0, "MINT_A", "NONE"), FwCCTP(1, "MINT_A", "NONE"), FwHYP("T1", 1, "R_A"), FwHYP("T1", 2, "R_A"), FwHYP("T2", 1, "R_A"), FwINT("U") }
Transfers == { Xfer(c, b, 1000, fw, acts) : c \in {0, 1}, b \in {"uusdc", "ustake"}, fw \in Dests, acts \in {<<>>, <<FeeAct(<<Bps(100, "F1")>>)>>} }
WQ(kind, by, pid, limit, walk, rev, ct) == QueryIn([DefQ EXCEPT !.kind = kind, !.by = by, !.pid = pid, !.limit = limit, !.walk = walk, !.reverse = rev, !.countTotal = ct])
Walks == { WQ(k, by, p, l, w, r, ct) : k \in {"amounts", "counts"}, by \in {"src", "dst"}, p \in {"IBC", "CCTP", "HYP", "INT", "PUNKNOWN"},
             l \in (IF StatSet = "full" THEN {1, 2, 3, 100, 0} ELSE {1, 2, 100}), w \in {"key", "offset"}, r \in BOOLEAN, ct \in BOOLEAN }
         \* requests WITHOUT a pagination block (the SDK's default page), continued by next-key
         \cup { WQ(k, by, p, 0, "nopage", FALSE, FALSE) : k \in {"amounts", "counts"}, by \in {"src", "dst"}, p \in {"IBC", "CCTP", "HYP", "INT"} }
DQ(kind, sc, dp, dc, dn) == QueryIn([DefQ EXCEPT !.kind = kind, !.by = "direct", !.sp = "IBC", !.sc = sc, !.dp = dp, !.dc = dc, !.denom = dn])
Directs == { DQ(k, sc, dst[1], dst[2], dn) : k \in {"amounts", "counts"}, sc \in {"channel-0", Chan1Id},
               dst \in { <<"CCTP", "0">>, <<"CCTP", "1">>, <<"CCTP", "2">>, <<"HYP", "1">>, <<"HYP", "2">>, <<"INT", "noble">>, <<"IBC", "channel-0">> },
               dn \in {"uusdc", "ustake"} }
           \cup { QueryIn([DefQ EXCEPT !.kind = "amounts", !.by = "direct", !.sp = "CCTP", !.sc = "1", !.dp = "HYP", !.dc = "2", !.denom = "uusdc"]),
                  QueryIn([DefQ EXCEPT !.kind = "amounts", !.by = "direct", !.sp = "IBC", !.sc = "channel-0", !.dp = "CCTP", !.dc = "0", !.denom = ""]) }
Queries == Walks \cup Directs
MCAlphabet == Transfers \cup Queries \cup {ReimportIn}
SmallAlphabet == MCAlphabet
StepProps == [][ Prop_C13(last') /\ Prop_C12(last') /\ Prop_C17(last') ]_vars
Depth == TLCGet("level") <= MaxDepth
View == st
=============================================================================
