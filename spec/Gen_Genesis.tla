----------------------------- MODULE Gen_Genesis -----------------------------
(* Generation for family GENESIS: every document followed by probe transfers and a *)
(* re-import, so that pause enforcement and continuing totals are judged on the    *)
(* re-initialised module by the very predicates that define them.                  *)
EXTENDS MC_Genesis, Json
CONSTANT GenDepth, GenSet
VARIABLES hist, done
Tail3 == << Xfer(0, "uusdc", 1000, FwCCTP(0, "MINT_A", "NONE"), <<FeeAct(<<Bps(100, "F1")>>)>>), ReimportIn,
            Xfer(1, "ustake", 500, FwINT("U"), <<>>), Xfer(0, "uusdc", 1000, FwHYP("T1", 1, "R_A"), <<>>) >>
GenInit == st = InitSt /\ last = NullStep /\ hist = <<>> /\ done = FALSE
GenNext == \/ /\ hist = <<>>
              /\ \E g \in Docs : hist' = <<GenDocIn(g)>> \o Tail3
              /\ UNCHANGED <<st, last, done>>
           \/ /\ hist # <<>> /\ ~done /\ done' = TRUE /\ UNCHANGED <<st, last, hist>>
GenSpec == GenInit /\ [][GenNext]_<<st, last, hist, done>>
SimSpec == GenSpec
Emit == done => PrintT(<<"BEHAVIOUR", ToJson(hist)>>)
=============================================================================
