------------------------------- MODULE BigNat -------------------------------
(* Exact arithmetic on natural numbers far beyond TLC's 32-bit integers (amounts  *)
(* up to 2^256-1, C02/C04): a number is a sequence of decimal digits, most         *)
(* significant first, without leading zeros (<<0>> is zero).  Every intermediate   *)
(* value stays small (a digit times at most 100000 plus a carry).                  *)
EXTENDS Integers, Sequences

RECURSIVE BStrip(_)
BStrip(s) == IF Len(s) > 1 /\ s[1] = 0 THEN BStrip(Tail(s)) ELSE IF s = <<>> THEN <<0>> ELSE s
BRev(s) == [i \in 1..Len(s) |-> s[Len(s) + 1 - i]]
BIsNat(s) == Len(s) >= 1 /\ \A i \in DOMAIN s : s[i] \in 0..9
BZero == <<0>>
BIsZero(s) == BStrip(s) = <<0>>

RECURSIVE BFromInt(_)
BFromInt(n) == IF n < 10 THEN <<n>> ELSE Append(BFromInt(n \div 10), n % 10)

\* comparison: -1, 0, 1
RECURSIVE BCmpSameLen(_, _)
BCmpSameLen(a, b) == IF a = <<>> THEN 0 ELSE IF a[1] < b[1] THEN -1 ELSE IF a[1] > b[1] THEN 1 ELSE BCmpSameLen(Tail(a), Tail(b))
BCmp(x, y) == LET a == BStrip(x)  b == BStrip(y) IN
              IF Len(a) < Len(b) THEN -1 ELSE IF Len(a) > Len(b) THEN 1 ELSE BCmpSameLen(a, b)
BLt(a, b) == BCmp(a, b) = -1
BLeq(a, b) == BCmp(a, b) <= 0
BEq(a, b) == BCmp(a, b) = 0

\* least-significant-first helpers
Dig(r, i) == IF i <= Len(r) THEN r[i] ELSE 0
RECURSIVE AddLSF(_, _, _, _)
AddLSF(a, b, i, c) == IF i > Len(a) /\ i > Len(b) THEN (IF c = 0 THEN <<>> ELSE <<c>>)
                      ELSE LET t == Dig(a, i) + Dig(b, i) + c IN <<t % 10>> \o AddLSF(a, b, i + 1, t \div 10)
BAdd(x, y) == BStrip(BRev(AddLSF(BRev(x), BRev(y), 1, 0)))

RECURSIVE SubLSF(_, _, _, _)
SubLSF(a, b, i, br) == IF i > Len(a) THEN <<>>
                       ELSE LET t == Dig(a, i) - Dig(b, i) - br IN
                            IF t < 0 THEN <<t + 10>> \o SubLSF(a, b, i + 1, 1) ELSE <<t>> \o SubLSF(a, b, i + 1, 0)
\* x - y for x >= y
BSub(x, y) == BStrip(BRev(SubLSF(BRev(BStrip(x)), BRev(BStrip(y)), 1, 0)))

RECURSIVE MulLSF(_, _, _, _)
MulLSF(a, k, i, c) == IF i > Len(a) THEN (IF c = 0 THEN <<>> ELSE BRev(BFromInt(c)))
                      ELSE LET t == a[i] * k + c IN <<t % 10>> \o MulLSF(a, k, i + 1, t \div 10)
\* x * k for a small k (k <= 100000)
BMulSmall(x, k) == BStrip(BRev(MulLSF(BRev(x), k, 1, 0)))

\* floor(x / k) for a small k, schoolbook from the most significant digit
RECURSIVE DivMSF(_, _, _, _)
DivMSF(a, k, i, rem) == IF i > Len(a) THEN <<>>
                        ELSE LET t == rem * 10 + a[i] IN <<t \div k>> \o DivMSF(a, k, i + 1, t % k)
BDivSmall(x, k) == BStrip(DivMSF(x, k, 1, 0))

\* 2^256 - 1 (sdkmath.Int's largest value), as a literal
BMax256 == <<1,1,5,7,9,2,0,8,9,2,3,7,3,1,6,1,9,5,4,2,3,5,7,0,9,8,5,0,0,8,6,8,7,9,0,7,8,5,3,2,6,9,9,8,4,6,6,5,6,4,0,5,6,4,0,3,9,4,5,7,5,8,4,0,0,7,9,1,3,1,2,9,6,3,9,9,3,5>>

RECURSIVE BSumSeq(_, _)
BSumSeq(seq, i) == IF i > Len(seq) THEN BZero ELSE BAdd(seq[i], BSumSeq(seq, i + 1))

\* sanity lemmas, checked by TLC when a model extends this module
ASSUME BAdd(BFromInt(999999), BFromInt(1)) = BFromInt(1000000)
ASSUME BSub(BFromInt(1000000), BFromInt(1)) = BFromInt(999999)
ASSUME BMulSmall(BFromInt(123456), 789) = BFromInt(97406784)
ASSUME BDivSmall(BFromInt(97406784), 10000) = BFromInt(9740)
ASSUME Len(BMax256) = 78 /\ BMax256[1] = 1 /\ BMax256[78] = 5
ASSUME \A a \in 0..60, b \in 0..60 : /\ BAdd(BFromInt(a), BFromInt(b)) = BFromInt(a + b)
                                     /\ (a >= b => BSub(BFromInt(a), BFromInt(b)) = BFromInt(a - b))
                                     /\ BMulSmall(BFromInt(a), b) = BFromInt(a * b)
                                     /\ (b > 0 => BDivSmall(BFromInt(a), b) = BFromInt(a \div b))
                                     /\ (BLt(BFromInt(a), BFromInt(b)) <=> a < b)
=============================================================================
