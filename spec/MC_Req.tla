------------------------------- MODULE MC_Req -------------------------------
(* Family REQ (C05): the outgoing request as a pure function of the payload.      *)
(* Grid: protocol id (every enum value, out-of-range numbers, numeric spellings)  *)
(* x attribute type x every attribute field over pairwise distinct values x       *)
(* pre-action {none, fee} (so "post-action amount" differs from "source amount")  *)
(* x unrouted action ids; plus the authority's deposit-replacement message.       *)
(* Replayed in instrumented mode (exact request messages recorded by wrappers     *)
(* around the real servers) and in app mode (typed events, simapp wiring).        *)
EXTENDS OrbiterProps, Inputs
CONSTANT MaxDepth, ReqSet

Pids == {"UNSUPPORTED", "IBC", "CCTP", "HYP", "INT", "P5", "P99", "N0", "N1", "N2", "N3", "N4", "PNEG", "PUNKNOWN"}
CctpAttrs == { [DefFw EXCEPT !.at = "CCTP", !.dom = dm, !.mint = m, !.caller = c, !.to = "NONE"] :
                 dm \in {0, 1}, m \in {"MINT_A", "MINT_B"}, c \in {"NONE", "CALLER_A", "CALLER_B", "CALLER_ZERO"} }
HypAttrs == { [DefFw EXCEPT !.at = "HYP", !.tok = "T1", !.dom = dm, !.rcp = r, !.hook = h, !.gas = g, !.maxfee = mf, !.meta = mt, !.to = "NONE"] :
                 dm \in {1, 2}, r \in {"R_A", "R_B"}, h \in {"NONE", "H_NOOP"}, g \in {0, 77}, mf \in {0, 5}, mt \in {"NONE", "0xAB"} }
IntAttrs == { [DefFw EXCEPT !.at = "INT", !.to = t] : t \in {"U", "F2", "M"} }
OddAttrs == { [DefFw EXCEPT !.at = a, !.to = "NONE"] : a \in {"FEE", "UNREG", "NONE"} }
             \cup { [DefFw EXCEPT !.at = "CCTP", !.dom = 4, !.mint = "MINT_A", !.to = "NONE"],
                    [DefFw EXCEPT !.at = "CCTP", !.dom = 0, !.mint = "NONE", !.to = "NONE"],
                    [DefFw EXCEPT !.at = "CCTP", !.dom = 0, !.mint = "MINT_ZERO", !.to = "NONE"],
                    [DefFw EXCEPT !.at = "HYP", !.tok = "T_UNK", !.dom = 1, !.rcp = "R_A", !.to = "NONE"],
                    [DefFw EXCEPT !.at = "HYP", !.tok = "T2", !.dom = 1, !.rcp = "R_A", !.to = "NONE"],
                    [DefFw EXCEPT !.at = "HYP", !.tok = "T1", !.dom = 1, !.rcp = "R_A", !.hook = "H_UNK", !.to = "NONE"],
                    [DefFw EXCEPT !.at = "HYP", !.tok = "T1", !.dom = 3, !.rcp = "R_A", !.to = "NONE"],
                    [DefFw EXCEPT !.at = "HYP", !.tok = "T1", !.dom = 1, !.rcp = "R_A", !.meta = "BAD", !.to = "NONE"],
                    [DefFw EXCEPT !.at = "INT", !.to = "INVALID"], [DefFw EXCEPT !.at = "INT", !.to = "EMPTY"],
                    \* byte fields of the wrong length (a longer value must not be truncated into another address)
                    [DefFw EXCEPT !.at = "HYP", !.tok = "T1", !.dom = 1, !.rcp = "LONG33", !.to = "NONE"],
                    [DefFw EXCEPT !.at = "HYP", !.tok = "T1", !.dom = 1, !.rcp = "SHORT", !.to = "NONE"],
                    [DefFw EXCEPT !.at = "HYP", !.tok = "LONG33", !.dom = 1, !.rcp = "R_A", !.to = "NONE"],
                    [DefFw EXCEPT !.at = "HYP", !.tok = "T1", !.dom = 1, !.rcp = "R_A", !.hook = "LONG33", !.to = "NONE"],
                    [DefFw EXCEPT !.at = "HYP", !.tok = "T1", !.dom = 1, !.rcp = "R_A", !.hook = "SHORT", !.to = "NONE"],
                    [DefFw EXCEPT !.at = "CCTP", !.dom = 0, !.mint = "LONG33", !.to = "NONE"],
                    [DefFw EXCEPT !.at = "CCTP", !.dom = 0, !.mint = "SHORT", !.to = "NONE"],
                    [DefFw EXCEPT !.at = "CCTP", !.dom = 0, !.mint = "MINT_A", !.caller = "LONG33", !.to = "NONE"],
                    [DefFw EXCEPT !.at = "INT", !.to = "ORB_UPPER"], [DefFw EXCEPT !.at = "INT", !.to = "OTHER_HRP"],
                    [DefFw EXCEPT !.at = "INT", !.to = "F1_MIXED"], [DefFw EXCEPT !.at = "INT", !.to = "F1_UPPER"],
                    [DefFw EXCEPT !.at = "INT", !.to = "F1_SPACE"], [DefFw EXCEPT !.at = "INT", !.to = "ORB_MIXED"] }
             \* the interchain gas paymaster as custom hook: gas limit x max fee x max fee denom
             \cup { [DefFw EXCEPT !.at = "HYP", !.tok = "T1", !.dom = 1, !.rcp = "R_A", !.hook = "H_IGP", !.gas = g, !.maxfee = mf, !.mfd = d, !.to = "NONE"] :
                      g \in {0, 3, 9}, mf \in {0, 5}, d \in {"uusdc", "ustake"} }
Attrs == IF ReqSet = "full" THEN CctpAttrs \cup HypAttrs \cup IntAttrs \cup OddAttrs
         ELSE { a \in CctpAttrs : a.dom = 0 } \cup { a \in HypAttrs : a.dom = 1 /\ a.rcp = "R_A" /\ a.gas = 77 } \cup IntAttrs \cup OddAttrs
ActSets == { <<>>, <<FeeAct(<<Bps(1000, "F1")>>)>> }
OddActs == { <<SwapAct>>,
             \* an identifier without a controller carrying attributes another controller would accept
             <<[id |-> "SWAP", at |-> "FEE", fees |-> <<Bps(1000, "F1")>>]>>, <<[id |-> "UNSUPPORTED", at |-> "FEE", fees |-> <<Bps(1000, "F1")>>]>>,
             <<[id |-> "A7", at |-> "FEE", fees |-> <<Bps(1000, "F1")>>]>>,
             \* numbers that are valid PROTOCOL ids but no action ids
             <<[id |-> "A3", at |-> "FEE", fees |-> <<Bps(1000, "F1")>>]>>, <<[id |-> "A4", at |-> "FEE", fees |-> <<Bps(1000, "F1")>>]>>, <<[id |-> "UNSUPPORTED", at |-> "FEE", fees |-> <<>>]>>, <<[id |-> "A7", at |-> "FEE", fees |-> <<>>]>>,
             <<[id |-> "N2", at |-> "FEE", fees |-> <<>>]>>, <<[id |-> "AUNKNOWN", at |-> "FEE", fees |-> <<>>]>>,
             \* several different identifiers each repeated (which one the refusal names must not depend on map order)
             <<FeeAct(<<>>), [id |-> "SWAP", at |-> "FEE", fees |-> <<>>], [id |-> "SWAP", at |-> "FEE", fees |-> <<>>], FeeAct(<<>>)>>,
             <<[id |-> "A7", at |-> "FEE", fees |-> <<>>], [id |-> "A7", at |-> "FEE", fees |-> <<>>],
               [id |-> "A9", at |-> "FEE", fees |-> <<>>], [id |-> "A9", at |-> "FEE", fees |-> <<>>]>>,
             <<[id |-> "SWAP", at |-> "FEE", fees |-> <<>>], FeeAct(<<>>), FeeAct(<<>>), [id |-> "SWAP", at |-> "FEE", fees |-> <<>>], [id |-> "A7", at |-> "FEE", fees |-> <<>>], [id |-> "A7", at |-> "FEE", fees |-> <<>>]>> }

Grid == { Xfer(0, "uusdc", 10000, [a EXCEPT !.pid = p], acts) : p \in Pids, a \in Attrs, acts \in ActSets }
        \cup { Xfer(0, "uusdc", 10000, fw, acts) : fw \in { FwCCTP(0, "MINT_A", "NONE"), FwINT("U") }, acts \in OddActs }
        \cup { Xfer(1, "ustake", 777, [a EXCEPT !.pid = "INT"], <<>>) : a \in IntAttrs }
        \cup { Xfer(1, "ustake", 777, [FwHYP("T2", 2, "R_B") EXCEPT !.gas = 9], <<>>) }
Replaces == { [AdminIn("ReplaceDepositForBurn", s) EXCEPT !.fw = FwCCTP(0, m, c), !.who = w] :
                s \in {"AUTH", "M", "EMPTY"}, m \in {"MINT_A", "MINT_B"}, c \in {"CALLER_A", "CALLER_B", "NONE"}, w \in {"x", "y"} }
            \* originals that are WELL-FORMED CCTP messages with a restricted (WFR) / open (WFO) destination caller:
            \* the replacement carries the authority's fields, whatever the original said (empty caller = no caller)
            \cup { [AdminIn("ReplaceDepositForBurn", "AUTH") EXCEPT !.fw = FwCCTP(0, m, c), !.who = w] :
                     m \in {"MINT_A", "MINT_ZERO", "NONE"}, c \in {"CALLER_A", "NONE", "CALLER_ZERO"}, w \in {"WFR", "WFO"} }

MCAlphabet == Grid \cup Replaces
SmallAlphabet == MCAlphabet

StepProps == [][ Prop_C05(last') /\ Prop_C01(last') /\ MC_C02(last') /\ Prop_C04(last') /\ Prop_C10(last') /\ Prop_C12(last') ]_vars
Depth == TLCGet("level") <= MaxDepth
View == st
=============================================================================
