------------------------------- MODULE MC_Dust -------------------------------
(* Family DUST (C11, C18, C01, C02): a small alphabet around coins lying on the     *)
(* orbiter account - direct deposits in both denoms, parameter updates, transfers   *)
(* on every route with and without a passthrough payload and a fee, a paused        *)
(* action, re-import - explored EXHAUSTIVELY to depth 3 (4 thorough), so that       *)
(* every three-step combination (e.g. deposit, raise the limit, transfer with a     *)
(* passthrough payload) is executed in the real code, each orbiter packet twice     *)
(* (as is / with the orbiter account emptied).                                      *)
EXTENDS OrbiterProps, Inputs
CONSTANT MaxDepth

Pt(fw, n) == [fw EXCEPT !.pt = n]
Fee1 == <<FeeAct(<<Bps(100, "F1")>>)>>
Igp(fw) == [fw EXCEPT !.hook = "H_IGP", !.gas = 3, !.maxfee = 5, !.mfd = "ustake"]
Transfers == { Xfer(0, "uusdc", 10000, FwINT("U"), <<>>), Xfer(0, "uusdc", 10000, Pt(FwINT("U"), 2), <<>>), Xfer(0, "uusdc", 10000, FwINT("U"), Fee1),
               Xfer(0, "uusdc", 10000, FwCCTP(0, "MINT_A", "NONE"), Fee1), Xfer(0, "uusdc", 10000, Pt(FwCCTP(0, "MINT_A", "NONE"), 2), <<>>),
               Xfer(1, "uusdc", 10000, FwHYP("T1", 1, "R_A"), <<>>), Xfer(1, "uusdc", 10000, Pt(FwHYP("T1", 1, "R_A"), 2), Fee1),
               Xfer(0, "ustake", 10000, FwINT("U"), <<>>), Xfer(0, "ustake", 10000, Pt(FwINT("U"), 2), Fee1),
               \* Hyperlane with a paying hook (interchain gas paymaster charging 3 ustake, max fee 5 ustake)
               Xfer(1, "uusdc", 10000, Igp(FwHYP("T1", 1, "R_A")), <<>>), Xfer(0, "ustake", 10000, Igp(FwHYP("T2", 2, "R_B")), <<>>) }
Others == { DepositIn("uusdc", 5), DepositIn("ustake", 5), UpdateParams("AUTH", 64), UpdateParams("AUTH", 0), PauseAction("AUTH", "FEE"), ReimportIn }
MCAlphabet == Transfers \cup Others
SmallAlphabet == MCAlphabet
StepProps == [][ /\ MC_C11(last') /\ MC_C02(last')
                 /\ Prop_C18(last') /\ Prop_C01(last') /\ Prop_C12(last') /\ Prop_C09(last') /\ Prop_C17(last') ]_vars
\* the deviation is real in the model too: some reachable IGP step violates C11 (non-vacuity of the exception)
IgpDeviationReachable == [][ ~(KnownDeviationIGP(last') /\ ~Prop_C11(last')) ]_vars   \* expected to be VIOLATED (run by hand)
LedgerConsistent == \A d \in Denom : MapThenSumSet(LAMBDA a : st.bal[a][d], Acct) = st.supply[d]
Depth == TLCGet("level") <= MaxDepth
View == st
=============================================================================
